//! C06 — a numeric variable only ever holds a value of its own type and range.
//!
//! (a) exhaustive route x boundary matrix with an exact expectation per observation,
//! (b) random programs (core + calls generators) run with the typed-variable invariant
//!     checked at every statement boundary.

use std::collections::BTreeMap;

use serde_json::{Value, json};

use crate::engine::{Shard, Violation, hash64};
use crate::genr::build::{Gen, GenCfg};
use crate::genr::print::{Layout, render};
use crate::impl_run::{self, End, RunOpts};
use crate::props::Prop;
use crate::refsem::{self, Outcome};

pub struct C06;

#[derive(Clone, Copy, PartialEq, Eq, Debug)]
enum T {
    I,
    L,
    S,
    D,
}

impl T {
    fn sfx(&self) -> char {
        match self {
            T::I => '%',
            T::L => '&',
            T::S => '!',
            T::D => '#',
        }
    }
    fn name(&self) -> &'static str {
        match self {
            T::I => "INTEGER",
            T::L => "LONG",
            T::S => "SINGLE",
            T::D => "DOUBLE",
        }
    }
    fn letter(&self) -> char {
        match self {
            T::I => 'I',
            T::L => 'L',
            T::S => 'S',
            T::D => 'D',
        }
    }
    const ALL: [T; 4] = [T::I, T::L, T::S, T::D];
}

/// Exact value: n / 4 (all boundary values are multiples of a quarter).
#[derive(Clone, Copy, Debug, PartialEq)]
struct Q(i128);

impl Q {
    fn f(&self) -> f64 {
        self.0 as f64 / 4.0
    }
    fn text(&self) -> String {
        let neg = self.0 < 0;
        let a = self.0.unsigned_abs();
        let frac = match a % 4 {
            0 => "",
            1 => ".25",
            2 => ".5",
            _ => ".75",
        };
        format!("{}{}{}", if neg { "-" } else { "" }, a / 4, frac)
    }
}

fn w(v: i128) -> Q {
    Q(v * 4)
}
fn q(v: i128, quarters: i128) -> Q {
    // v + quarters/4 with the sign of v applied to both parts
    Q(if v < 0 { v * 4 - quarters } else { v * 4 + quarters })
}

fn boundary(t: T) -> Vec<Q> {
    match t {
        T::I => [-32768, -32767, -1, 0, 1, 32766, 32767].iter().map(|v| w(*v)).collect(),
        T::L => [-2147483648i128, -2147483647, -32769, -32768, -1, 0, 1, 32767, 32768, 65535, 65536, 2147483646, 2147483647].iter().map(|v| w(*v)).collect(),
        T::S => {
            let mut v = vec![q(-32768, 3), q(-32768, 2), q(-32768, 1), w(-32768), q(0, 1), q(0, 2), q(0, 3), Q(-1), Q(-2), Q(-3), w(0), q(1, 2), q(2, 2), q(32767, 1), q(32767, 2), q(32767, 3), w(32768), w(2147483520), w(2147483648), w(-2147483648), w(-2147483904), w(16777216)];
            v.push(w(-32769));
            v
        }
        T::D => vec![w(-2147483649), q(-2147483648, 3), q(-2147483648, 2), q(-2147483648, 1), w(-2147483648), q(-32768, 2), q(-32768, 3), q(0, 2), w(0), q(32767, 2), q(32767, 3), q(2147483647, 1), q(2147483647, 2), q(2147483647, 3), w(2147483648), w(4000000000)],
    }
}

/// Source literal text that yields exactly `v` when assigned to a variable of type `s`.
fn source_literal(s: T, v: Q) -> String {
    match s {
        T::I | T::L => v.text(),
        T::S => v.text(),
        T::D => {
            let t = v.text();
            if t.contains('.') { format!("{}#", t) } else { format!("{}.0#", t) }
        }
    }
}

#[derive(Clone, Debug, PartialEq)]
enum Out {
    Stored(f64),
    Overflow,
}

/// Acceptable outcomes of converting the exact value `v` for a target of type `t`.
fn expected(v: Q, t: T) -> Vec<Out> {
    let range = |t: T| -> (i128, i128) {
        match t {
            T::I => (-32768, 32767),
            _ => (-2147483648, 2147483647),
        }
    };
    match t {
        T::I | T::L => {
            let (lo, hi) = range(t);
            let fl = v.0.div_euclid(4);
            let rem = v.0.rem_euclid(4);
            let cands: Vec<i128> = match rem {
                0 => vec![fl],
                1 => vec![fl],
                2 => vec![fl, fl + 1],
                _ => vec![fl + 1],
            };
            let mut out = vec![];
            for c in cands {
                let o = if c < lo || c > hi { Out::Overflow } else { Out::Stored(c as f64) };
                if !out.contains(&o) {
                    out.push(o);
                }
            }
            out
        }
        T::S => vec![Out::Stored((v.f() as f32) as f64)],
        T::D => vec![Out::Stored(v.f())],
    }
}

#[derive(Clone, Debug)]
struct Obs {
    id: usize,
    route: &'static str,
    s: T,
    t: T,
    v: Q,
    /// statements executed for this observation (the route statement is the LAST line unless `tail` is set)
    lines: Vec<String>,
    /// line printed after the route statement to show the target (None when the route prints itself)
    show: Option<String>,
    stdin: Option<String>,
    data: Option<String>,
    exp: Vec<Out>,
    /// arithmetic observation attributed to the known unguarded-overflow finding when it fails to raise
    arith: bool,
}

fn routes_for(id: &mut usize, s: T, t: T, v: Q, out: &mut Vec<Obs>) {
    let exp = expected(v, t);
    let sv = format!("SV{}", s.sfx());
    let setup = format!("{} = {}", sv, source_literal(s, v));
    let tv = format!("TV{}", t.sfx());
    let mut push = |route: &'static str, mut lines: Vec<String>, show: Option<String>, stdin: Option<String>, data: Option<String>, exp: Vec<Out>| {
        *id += 1;
        let k = *id;
        for l in lines.iter_mut() {
            *l = l.replace("{K}", &format!("K{}", k));
        }
        let show = show.map(|s| s.replace("{K}", &format!("K{}", k)));
        out.push(Obs { id: k, route, s, t, v, lines, show, stdin, data, exp, arith: false });
    };
    // 1 assignment
    push("assign", vec![setup.clone(), format!("{} = 7", tv), format!("{} = {}", tv, sv)], Some(format!("PRINT \"{{K}}\"; {}", tv)), None, None, exp.clone());
    // 2 by-value parameter (parenthesised variable): the callee prints its parameter
    push("by-value-parameter", vec![setup.clone(), "PRINT \"{K}\";".to_string(), format!("SHOW{} ({})", t.letter(), sv)], None, None, None, exp.clone());
    // 3 FOR initial value (whole-number counters): the loop body never runs unless the value is the type minimum
    if matches!(t, T::I | T::L) {
        let tmin: i128 = if t == T::I { -32768 } else { -2147483648 };
        let e2: Vec<Out> = exp.iter().map(|o| match o {
            Out::Stored(x) if *x == tmin as f64 => Out::Stored(*x + 1.0),
            o => o.clone(),
        }).collect();
        push("for-initial-value", vec![setup.clone(), format!("{} = 7", tv), format!("FOR {} = {} TO {}", tv, sv, tmin), "NEXT".to_string()], Some(format!("PRINT \"{{K}}\"; {}", tv)), None, None, e2);
    }
    // 4 function result
    push("function-result", vec![setup.clone(), format!("PRINT \"{{K}}\"; F{}{}{}({})", s.letter(), t.letter(), t.sfx(), sv)], None, None, None, exp.clone());
    // 5 array element
    push("array-element", vec![setup.clone(), format!("AR{}(1) = 7", t.sfx()), format!("AR{}(1) = {}", t.sfx(), sv)], Some(format!("PRINT \"{{K}}\"; AR{}(1)", t.sfx())), None, None, exp.clone());
    // 6 record field
    push("record-field", vec![setup.clone(), format!("RV.F{} = 7", t.letter()), format!("RV.F{} = {}", t.letter(), sv)], Some(format!("PRINT \"{{K}}\"; RV.F{}", t.letter())), None, None, exp.clone());
    // 7 READ and 8 INPUT take the value as text (only once per (value, target): source type irrelevant)
    if s == T::D || (s == T::S && !boundary(T::D).contains(&v)) || (s == T::L && !boundary(T::S).contains(&v) && !boundary(T::D).contains(&v)) {
        let lit = v.text();
        // a DATA item with a fraction is a SINGLE literal: it denotes the nearest single
        let v_read = if lit.contains('.') { let f = (v.f() as f32) as f64; Q((f * 4.0) as i128) } else { v };
        let read_exact = !lit.contains('.') || ((v_read.0 as f64) / 4.0 == (v.f() as f32) as f64);
        if read_exact {
            push("read", vec![format!("{} = 7", tv), format!("READ {}", tv)], Some(format!("PRINT \"{{K}}\"; {}", tv)), None, Some(lit.clone()), expected(v_read, t));
        }
        push("input", vec![format!("{} = 7", tv), format!("INPUT {}", tv)], Some(format!("PRINT \"{{K}}\"; {}", tv)), Some(format!("{}\r\n", lit)), None, exp.clone());
    }
}

fn prelude() -> Vec<String> {
    let mut p = vec![];
    p.push("TYPE RT".to_string());
    for t in T::ALL {
        p.push(format!("  F{} AS {}", t.letter(), t.name()));
    }
    p.push("END TYPE".to_string());
    p.push("DIM RV AS RT".to_string());
    for t in T::ALL {
        p.push(format!("DIM AR{}(1)", t.sfx()));
    }
    p
}

fn procs() -> Vec<String> {
    let mut p = vec![];
    for t in T::ALL {
        p.push(format!("SUB SHOW{} (X{})", t.letter(), t.sfx()));
        p.push(format!("  PRINT X{}", t.sfx()));
        p.push("END SUB".to_string());
        for s in T::ALL {
            p.push(format!("FUNCTION F{}{}{} (X{})", s.letter(), t.letter(), t.sfx(), s.sfx()));
            p.push(format!("  F{}{}{} = X{}", s.letter(), t.letter(), t.sfx(), s.sfx()));
            p.push("END FUNCTION".to_string());
        }
    }
    p
}

struct Built {
    text: String,
    stdin: String,
    /// row of the route statement per observation id
    route_rows: BTreeMap<usize, (u32, u32)>,
}

/// Renders observations into one program; `handler`: failing statements are handled (E+code printed, RESUME NEXT).
fn build(obs: &[Obs], handler: bool) -> Built {
    let mut lines: Vec<String> = vec![];
    let mut stdin = String::new();
    let data: Vec<String> = obs.iter().filter_map(|o| o.data.clone()).collect();
    for chunk in data.chunks(8) {
        lines.push(format!("DATA {}", chunk.join(", ")));
    }
    lines.extend(prelude());
    if handler {
        lines.push("ON ERROR GOTO H".to_string());
    }
    let mut rows = BTreeMap::new();
    for o in obs {
        let from = lines.len() as u32 + 1;
        lines.extend(o.lines.iter().cloned());
        let to = lines.len() as u32;
        rows.insert(o.id, (from, to));
        if let Some(s) = &o.show {
            lines.push(s.clone());
        }
        if let Some(s) = &o.stdin {
            stdin.push_str(s);
        }
    }
    lines.push("END".to_string());
    if handler {
        lines.push("H:".to_string());
        lines.push("PRINT \"E\"; ERR".to_string());
        lines.push("RESUME NEXT".to_string());
    }
    lines.extend(procs());
    Built { text: lines.join("\n") + "\n", stdin, route_rows: rows }
}

fn parse_marked(stdout: &str) -> (BTreeMap<usize, String>, Vec<String>) {
    // lines "K<id> <value> " ; the by-value route prints the marker with a trailing ';' then the callee prints the value
    let mut m = BTreeMap::new();
    let mut errors = vec![];
    for line in stdout.split("\r\n") {
        // INPUT may print a prompt before the marker
        if let Some(p) = line.find('K') {
            let rest = &line[p + 1..];
            let digits: String = rest.chars().take_while(|c| c.is_ascii_digit()).collect();
            if !digits.is_empty() {
                if let Ok(id) = digits.parse::<usize>() {
                    m.insert(id, rest[digits.len()..].trim().to_string());
                    continue;
                }
            }
        }
        if line.starts_with('E') {
            errors.push(line.trim().to_string());
        }
    }
    (m, errors)
}

fn value_matches(t: T, printed: &str, want: f64) -> bool {
    match t {
        T::S => printed.parse::<f32>().map(|x| (x as f64) == want).unwrap_or(false),
        _ => printed.parse::<f64>().map(|x| x == want).unwrap_or(false),
    }
}

fn obs_json(o: &Obs) -> Value {
    json!({"route": o.route, "source_type": o.s.name(), "target_type": o.t.name(), "value": o.v.text(), "accepted_outcomes": format!("{:?}", o.exp)})
}

/// Runs a batch of observations that are all expected to store a value (no error).
fn run_batch(sh: &mut Shard, obs: &[Obs]) -> Result<(), Violation> {
    let b = build(obs, false);
    sh.journal(&b.text);
    let inputs = |o: Option<&Obs>| json!({"kind":"matrix","program": b.text, "stdin": b.stdin, "observation": o.map(obs_json), "expect": obs.iter().map(|o| json!({"id":o.id,"type":format!("{:?}", o.t),"outcomes":o.exp.iter().map(|x| match x { Out::Stored(v) => json!(v), Out::Overflow => json!("overflow") }).collect::<Vec<_>>(), "arith": o.arith})).collect::<Vec<_>>() });
    let mut opts = RunOpts::budget(3_000_000).with_stdin(b.stdin.as_bytes());
    opts.typed_vars = true;
    let out = match impl_run::run_src(&b.text, &opts) {
        Err(e) => return Err(Violation::new(format!("c06-rejected:{}", e.class()), "conversion-matrix program rejected", inputs(None)).exp_obs("accepted", e.to_json())),
        Ok(o) => o,
    };
    let (marked, _) = parse_marked(&out.stdout_str());
    for o in obs {
        sh.eval();
        sh.class(&format!("route:{}", o.route));
        sh.class(&format!("{}->{}", o.s.name(), o.t.name()));
        sh.nontrivial(hash64(&(o.route, o.s.name(), o.t.name(), o.v.0, o.id)));
        match marked.get(&o.id) {
            Some(p) => {
                if !o.exp.iter().any(|e| matches!(e, Out::Stored(w) if value_matches(o.t, p, *w))) {
                    let sig = if o.arith { "int-arith-overflow-unguarded".to_string() } else { format!("c06-wrong-value:{}:{}->{}", o.route, o.s.name(), o.t.name()) };
                    return Err(Violation::new(sig, format!("{} of {} value {} to {} stored {}", o.route, o.s.name(), o.v.text(), o.t.name(), p), inputs(Some(o))).exp_obs(format!("{:?}", o.exp), p.clone()));
                }
            }
            None => {
                // the program stopped before this observation: report the ending
                let sig = format!("c06-unexpected-end:{}:{}->{}", o.route, o.s.name(), o.t.name());
                return Err(Violation::new(sig, format!("{} of {} value {} to {}: no value observed, program ended with {}", o.route, o.s.name(), o.v.text(), o.t.name(), out.end.short()), inputs(Some(o))).exp_obs(format!("{:?}", o.exp), out.end.to_json()));
            }
        }
    }
    if let Some(a) = out.typed_anomaly {
        return Err(Violation::new("c06-typed-invariant:matrix", format!("a variable holds a value outside its type: {}", a), inputs(None)).exp_obs("every variable holds a value of its declared type", a));
    }
    if out.end != End::Ok {
        return Err(Violation::new("c06-batch-end", "conversion-matrix batch did not run to completion", inputs(None)).exp_obs("ok", out.end.to_json()));
    }
    Ok(())
}

/// One observation whose conversion must (or may) raise Overflow: as its own program, the route statement last.
fn run_single(sh: &mut Shard, o: &Obs) -> Result<(), Violation> {
    let b = build(std::slice::from_ref(o), false);
    sh.journal(&b.text);
    let inputs = json!({"kind":"single","program": b.text, "stdin": b.stdin, "observation": obs_json(o), "expect": [json!({"id":o.id,"type":format!("{:?}", o.t),"outcomes":o.exp.iter().map(|x| match x { Out::Stored(v) => json!(v), Out::Overflow => json!("overflow") }).collect::<Vec<_>>(), "arith": o.arith})], "route_rows": [b.route_rows[&o.id].0, b.route_rows[&o.id].1]});
    let mut opts = RunOpts::budget(1_000_000).with_stdin(b.stdin.as_bytes());
    opts.typed_vars = true;
    sh.eval();
    sh.class(&format!("route:{}", o.route));
    sh.class(&format!("{}->{}:overflow-candidate", o.s.name(), o.t.name()));
    sh.nontrivial(hash64(&(o.route, o.s.name(), o.t.name(), o.v.0, "single", o.id)));
    let out = match impl_run::run_src(&b.text, &opts) {
        Err(e) => return Err(Violation::new(format!("c06-rejected:{}", e.class()), "conversion-matrix program rejected", inputs).exp_obs("accepted", e.to_json())),
        Ok(x) => x,
    };
    let known = |default: String| if o.arith { "int-arith-overflow-unguarded".to_string() } else { default };
    let (marked, _) = parse_marked(&out.stdout_str());
    match &out.end {
        End::Err { code: Some(6), pos, .. } => {
            if !o.exp.contains(&Out::Overflow) {
                return Err(Violation::new(format!("c06-spurious-overflow:{}:{}->{}", o.route, o.s.name(), o.t.name()), format!("{} of {} value {} to {} raised Overflow although it fits", o.route, o.s.name(), o.v.text(), o.t.name()), inputs).exp_obs(format!("{:?}", o.exp), out.end.to_json()));
            }
            let (from, to) = b.route_rows[&o.id];
            if !pos.iter().any(|p| p.0 >= from && p.0 <= to) {
                return Err(Violation::new(format!("c06-overflow-position:{}", o.route), "Overflow raised at another statement", inputs).exp_obs(json!([from, to]), json!(pos)));
            }
            Ok(())
        }
        End::Ok => match marked.get(&o.id) {
            Some(p) if o.exp.iter().any(|e| matches!(e, Out::Stored(w) if value_matches(o.t, p, *w))) => {
                if let Some(a) = out.typed_anomaly {
                    return Err(Violation::new(known(format!("c06-typed-invariant:{}", o.route)), format!("a variable holds a value outside its type: {}", a), inputs).exp_obs("every variable holds a value of its declared type", a));
                }
                Ok(())
            }
            other => Err(Violation::new(known(format!("c06-not-raised:{}:{}->{}", o.route, o.s.name(), o.t.name())), format!("{} of {} value {} to {}: expected {:?}, observed {:?}", o.route, o.s.name(), o.v.text(), o.t.name(), o.exp, other), inputs).exp_obs(format!("{:?}", o.exp), json!({"printed": other, "typed_anomaly": out.typed_anomaly}))),
        },
        other => Err(Violation::new(known(format!("c06-wrong-end:{}:{}", o.route, other.short().chars().take(40).collect::<String>())), format!("{} of {} value {} to {} ended with {}", o.route, o.s.name(), o.v.text(), o.t.name(), other.short()), inputs).exp_obs(format!("{:?}", o.exp), other.to_json())),
    }
}

fn arithmetic(id: &mut usize, out: &mut Vec<Obs>) {
    // + - * on every ordered pair of (reduced) boundary values of every type pair; unary minus on the minima
    let reduced = |t: T| -> Vec<Q> {
        match t {
            T::I => [-32768i128, -1, 0, 1, 2, 32767].iter().map(|v| w(*v)).collect(),
            T::L => [-2147483648i128, -32769, -1, 2, 65536, 2147483647].iter().map(|v| w(*v)).collect(),
            T::S => vec![q(0, 1), w(3), q(-2, 2), w(16777216)],
            T::D => vec![q(0, 2), w(-3), q(2147483647, 2), w(4000000000)],
        }
    };
    let rank = |t: T| match t {
        T::I => 0,
        T::L => 1,
        T::S => 2,
        T::D => 3,
    };
    for s1 in T::ALL {
        for s2 in T::ALL {
            let wt = if rank(s1) >= rank(s2) { s1 } else { s2 };
            for a in reduced(s1) {
                for b in reduced(s2) {
                    for op in ['+', '-', '*'] {
                        // exact result in sixteenths
                        let r16: i128 = match op {
                            '+' => (a.0 + b.0) * 4,
                            '-' => (a.0 - b.0) * 4,
                            _ => a.0 * b.0,
                        };
                        let exp: Vec<Out> = match wt {
                            T::I | T::L => {
                                let (lo, hi): (i128, i128) = if wt == T::I { (-32768, 32767) } else { (-2147483648, 2147483647) };
                                let v = r16 / 16;
                                vec![if v < lo || v > hi { Out::Overflow } else { Out::Stored(v as f64) }]
                            }
                            T::S => {
                                let exact = r16 as f64 / 16.0;
                                if (r16.unsigned_abs() >> 52) != 0 {
                                    continue; // not exactly representable in f64: double rounding, skip
                                }
                                if wt == T::S && (s1 != T::S || s2 != T::S) {
                                    // a whole operand is converted to f32 first: keep operands exactly representable
                                    let fits = |x: Q| ((x.f() as f32) as f64) == x.f();
                                    if !fits(a) || !fits(b) {
                                        continue;
                                    }
                                }
                                vec![Out::Stored((exact as f32) as f64)]
                            }
                            T::D => {
                                if (r16.unsigned_abs() >> 52) != 0 {
                                    continue;
                                }
                                vec![Out::Stored(r16 as f64 / 16.0)]
                            }
                        };
                        *id += 1;
                        let k = *id;
                        let lines = vec![format!("SV{} = {}", s1.sfx(), source_literal(s1, a)), format!("SW{} = {}", s2.sfx(), source_literal(s2, b)), format!("PRINT \"K{}\"; SV{} {} SW{}", k, s1.sfx(), op, s2.sfx())];
                        out.push(Obs { id: k, route: "arithmetic", s: s1, t: wt, v: a, lines, show: None, stdin: None, data: None, exp, arith: matches!(wt, T::I | T::L) });
                    }
                }
            }
        }
    }
    // floating point results beyond the type's range: built by repeated multiplication (no exponent literals)
    let s_setup = vec!["SV! = 10000000000".to_string(), "SV! = SV! * SV!".to_string(), "SW! = SV! * 1000000000 * 1000000000 * 3".to_string()]; // SV! = 1E20, SW! = 3E38
    let d_setup = vec!["SV# = 10000000000".to_string(), "SV# = SV# * SV#".to_string(), "SV# = SV# * SV#".to_string(), "SV# = SV# * SV#".to_string(), "SV# = SV# * SV#".to_string(), "SW# = SV# / 1000000000000 * SV#".to_string()]; // SV# = 1E160, SW# = 1E308
    let float_cases: Vec<(T, &Vec<String>, &str)> = vec![
        (T::S, &s_setup, "SV! * SV!"),
        (T::S, &s_setup, "SW! + SW!"),
        (T::S, &s_setup, "-SW! - SW!"),
        (T::S, &s_setup, "SW! * 2"),
        (T::S, &s_setup, "SW! / .25"),
        (T::S, &s_setup, "SW! * SV%"),
        (T::D, &d_setup, "SV# * SV#"),
        (T::D, &d_setup, "SW# + SW#"),
        (T::D, &d_setup, "-SW# - SW#"),
        (T::D, &d_setup, "SW# * 2"),
        (T::D, &d_setup, "SW# / .25"),
        (T::D, &d_setup, "SW# * SV%"),
    ];
    for (t, setup, e) in float_cases {
        for form in 0..2 {
            *id += 1;
            let k = *id;
            let mut lines = setup.clone();
            lines.push("SV% = 4".to_string());
            lines.push(if form == 0 { format!("PRINT \"K{}\"; {}", k, e) } else { format!("SX{} = {}", t.sfx(), e) });
            out.push(Obs { id: k, route: "float-overflow", s: t, t, v: w(0), lines, show: None, stdin: None, data: None, exp: vec![Out::Overflow], arith: false });
        }
    }
    // a DOUBLE beyond the SINGLE range stored into a SINGLE
    {
        *id += 1;
        let k = *id;
        let mut lines = d_setup.clone();
        lines.push("SX! = SV#".to_string());
        out.push(Obs { id: k, route: "float-overflow", s: T::D, t: T::S, v: w(0), lines, show: None, stdin: None, data: None, exp: vec![Out::Overflow], arith: false });
    }
    for (t, min) in [(T::I, -32768i128), (T::L, -2147483648i128)] {
        *id += 1;
        let k = *id;
        let lines = vec![format!("SV{} = {}", t.sfx(), min), format!("PRINT \"K{}\"; -SV{}", k, t.sfx())];
        out.push(Obs { id: k, route: "negate-minimum", s: t, t, v: w(min), lines, show: None, stdin: None, data: None, exp: vec![Out::Overflow], arith: false });
    }
}

/// MOD / AND / OR / NOT: operands of every type pair (rounded to whole numbers first, worked on 16 bits only when
/// both are INTEGER, on the 32 bits of a LONG otherwise), the result printed directly and stored into INTEGER, LONG
/// and DOUBLE targets. An operand beyond the LONG range, or a result beyond the target's range, must raise Overflow.
fn logical(id: &mut usize, out: &mut Vec<Obs>) {
    let operands = |t: T| -> Vec<Q> {
        match t {
            T::I => [-32768i128, -1, 0, 1, 255, 32767].iter().map(|v| w(*v)).collect(),
            T::L => [-2147483648i128, -32769, 2, 65537, 2147483647].iter().map(|v| w(*v)).collect(),
            T::S => vec![q(0, 1), w(3), q(40000, 1), q(-32768, 3), w(16777216), w(2147483648), w(-2147483648)],
            T::D => vec![q(0, 3), w(-3), q(100001, 1), q(2147483647, 1), q(2147483647, 3), w(4000000000)],
        }
    };
    let round = |v: Q| -> Option<i128> {
        let fl = v.0.div_euclid(4);
        match v.0.rem_euclid(4) {
            0 | 1 => Some(fl),
            2 => None, // a tie: not determined
            _ => Some(fl + 1),
        }
    };
    let in_long = |x: i128| (-2147483648..=2147483647).contains(&x);
    for s1 in T::ALL {
        for s2 in T::ALL {
            let both_int = s1 == T::I && s2 == T::I;
            let rt = if both_int { T::I } else { T::L };
            for a in operands(s1) {
                for b in operands(s2) {
                    let (Some(ra), Some(rb)) = (round(a), round(b)) else { continue };
                    for (op, route) in [("AND", "logical-and"), ("OR", "logical-or"), ("MOD", "modulo")] {
                        if op == "MOD" && rb == 0 {
                            continue; // Division by zero (possibly competing with Overflow): C01's business
                        }
                        let result: Option<i128> = if !in_long(ra) || !in_long(rb) {
                            None
                        } else {
                            match op {
                                "AND" => Some(ra & rb),
                                "OR" => Some(ra | rb),
                                _ => {
                                    if rb == 0 {
                                        continue; // Division by zero: C01's business
                                    }
                                    Some(ra % rb)
                                }
                            }
                        };
                        // printed directly
                        {
                            *id += 1;
                            let k = *id;
                            let exp = match result {
                                None => vec![Out::Overflow],
                                Some(r) => vec![Out::Stored(r as f64)],
                            };
                            let lines = vec![format!("SV{} = {}", s1.sfx(), source_literal(s1, a)), format!("SW{} = {}", s2.sfx(), source_literal(s2, b)), format!("PRINT \"K{}\"; SV{} {} SW{}", k, s1.sfx(), op, s2.sfx())];
                            out.push(Obs { id: k, route, s: s1, t: rt, v: a, lines, show: None, stdin: None, data: None, exp, arith: false });
                        }
                        // stored into a target of each kind
                        for t in [T::I, T::L, T::D] {
                            *id += 1;
                            let k = *id;
                            let exp = match result {
                                None => vec![Out::Overflow],
                                Some(r) => expected(w(r), t),
                            };
                            let lines = vec![format!("SV{} = {}", s1.sfx(), source_literal(s1, a)), format!("SW{} = {}", s2.sfx(), source_literal(s2, b)), format!("TV{} = 7", t.sfx()), format!("TV{} = SV{} {} SW{}", t.sfx(), s1.sfx(), op, s2.sfx())];
                            out.push(Obs { id: k, route, s: s1, t, v: a, lines, show: Some(format!("PRINT \"K{}\"; TV{}", k, t.sfx())), stdin: None, data: None, exp, arith: false });
                        }
                    }
                }
            }
        }
    }
    // NOT on whole-number operands: -x - 1 in the operand's type (never out of range)
    for s1 in [T::I, T::L] {
        for a in operands(s1) {
            let r = -(a.0 / 4) - 1;
            for t in [T::I, T::L] {
                *id += 1;
                let k = *id;
                let lines = vec![format!("SV{} = {}", s1.sfx(), source_literal(s1, a)), format!("TV{} = 7", t.sfx()), format!("TV{} = NOT SV{}", t.sfx(), s1.sfx())];
                out.push(Obs { id: k, route: "logical-not", s: s1, t, v: a, lines, show: Some(format!("PRINT \"K{}\"; TV{}", k, t.sfx())), stdin: None, data: None, exp: expected(w(r), t), arith: false });
            }
        }
    }
}

/// Numbers written with more digits than any literal in the boundary sets: beyond the SINGLE range (4 * 10^38),
/// beyond the DOUBLE range (2 * 10^308) and just inside them, arriving as text through INPUT and READ.
fn huge_text(id: &mut usize, out: &mut Vec<Obs>) {
    let digits = |lead: &str, zeros: usize| format!("{}{}", lead, "0".repeat(zeros));
    let texts: Vec<(&'static str, String)> = vec![
        ("beyond-single", digits("4", 38)),
        ("beyond-single", digits("-4", 38)),
        ("inside-single", digits("3", 38)),
        ("inside-single", digits("-3", 38)),
        ("beyond-single", digits("1", 45)),
        ("beyond-double", digits("2", 308)),
        ("beyond-double", digits("-2", 308)),
        ("inside-double", digits("1", 308)),
    ];
    for (class, text) in texts {
        let as_f64: f64 = text.parse().unwrap();
        for t in T::ALL {
            let exp: Option<Vec<Out>> = match t {
                T::I | T::L => Some(vec![Out::Overflow]),
                T::S => {
                    let direct: f32 = text.parse().unwrap();
                    if !direct.is_finite() || !as_f64.is_finite() {
                        Some(vec![Out::Overflow])
                    } else if (as_f64 as f32) == direct {
                        Some(vec![Out::Stored(direct as f64)])
                    } else {
                        None // double rounding: the statement does not say through which type the text is read
                    }
                }
                T::D => Some(if as_f64.is_finite() { vec![Out::Stored(as_f64)] } else { vec![Out::Overflow] }),
            };
            let Some(exp) = exp else { continue };
            let tv = format!("TV{}", t.sfx());
            let (r_input, r_read): (&'static str, &'static str) = match class {
                "beyond-single" => ("input:beyond-single", "read:beyond-single"),
                "inside-single" => ("input:inside-single", "read:inside-single"),
                "beyond-double" => ("input:beyond-double", "read:beyond-double"),
                _ => ("input:inside-double", "read:inside-double"),
            };
            *id += 1;
            let k = *id;
            out.push(Obs { id: k, route: r_input, s: T::D, t, v: w(0), lines: vec![format!("{} = 7", tv), format!("INPUT {}", tv)], show: Some(format!("PRINT \"K{}\"; {}", k, tv)), stdin: Some(format!("{}\r\n", text)), data: None, exp: exp.clone(), arith: false });
            if as_f64.is_finite() {
                // a DATA item is a literal: digits beyond LONG make a DOUBLE (a literal beyond the DOUBLE range is C10's business)
                *id += 1;
                let k = *id;
                out.push(Obs { id: k, route: r_read, s: T::D, t, v: w(0), lines: vec![format!("{} = 7", tv), format!("READ {}", tv)], show: Some(format!("PRINT \"K{}\"; {}", k, tv)), stdin: None, data: Some(text.clone()), exp, arith: false });
            }
        }
    }
}

/// POKE through VARSEG / VARPTR into the two bytes of an INTEGER variable and of an INTEGER array element:
/// afterwards the location holds the 16-bit two's complement value of its bytes, i.e. still an INTEGER.
fn poke(id: &mut usize, out: &mut Vec<Obs>) {
    for init in [0i16, 1, -1, 255, 256, 32767, -32768, -2] {
        for off in 0..2usize {
            for byte in [0u8, 1, 127, 128, 255] {
                let mut bytes = init.to_le_bytes();
                bytes[off] = byte;
                let want = i16::from_le_bytes(bytes);
                for (route, loc) in [("poke-variable", "TV%".to_string()), ("poke-array-element", "AR%(1)".to_string())] {
                    *id += 1;
                    let k = *id;
                    let lines = vec![format!("{} = {}", loc, init), format!("DEF SEG = VARSEG({})", loc), format!("POKE VARPTR({}) + {}, {}", loc, off, byte), "DEF SEG".to_string()];
                    out.push(Obs { id: k, route, s: T::I, t: T::I, v: w(0), lines, show: Some(format!("PRINT \"K{}\"; {}", k, loc)), stdin: None, data: None, exp: vec![Out::Stored(want as f64)], arith: false });
                }
            }
        }
    }
}

/// FOR increments: a whole-number counter with a step of each numeric type. The counter stays a value of its own
/// type on every pass (the typed-variable invariant runs at every statement boundary) and holds the first value beyond
/// the limit afterwards; an increment that leaves the counter's range raises Overflow at the loop.
fn for_increment(id: &mut usize, out: &mut Vec<Obs>) {
    for t in [T::I, T::L] {
        let max: i128 = if t == T::I { 32767 } else { 2147483647 };
        for s in T::ALL {
            for (from, to, step, after) in [(1i128, 3i128, 1i128, Some(4i128)), (10, 1, -4, Some(-2)), (max - 7, max, 5, None), (-max, -max - 1, -3, None)] {
                if after.is_none() && t == T::L && s == T::S {
                    continue; // counter + step is computed in SINGLE: near 2^31 the sum is not exact
                }
                *id += 1;
                let k = *id;
                let exp = match after {
                    Some(a) => vec![Out::Stored(a as f64)],
                    None => vec![Out::Overflow],
                };
                let lines = vec![format!("SW{} = {}", s.sfx(), source_literal(s, w(step))), format!("TV{} = 7", t.sfx()), format!("FOR TV{} = {} TO {} STEP SW{}", t.sfx(), from, to, s.sfx()), format!("SX{} = TV{} + 0", t.sfx(), t.sfx()), "NEXT".to_string()];
                out.push(Obs { id: k, route: "for-increment", s, t, v: w(step), lines, show: Some(format!("PRINT \"K{}\"; TV{}", k, t.sfx())), stdin: None, data: None, exp, arith: false });
            }
        }
    }
}

/// Results of built-in functions that do not fit the target: the value of a numeral beyond the SINGLE / DOUBLE range (VAL),
/// a length or position beyond the INTEGER range (LEN, INSTR of strings longer than 32767 characters). The target either
/// receives a value of its type or Overflow is raised; a result beyond the function's own INTEGER type may also be refused
/// whatever the target is.
fn builtin_results(id: &mut usize, out: &mut Vec<Obs>) {
    let cases: Vec<(&'static str, String, f64)> = vec![
        ("builtin:val-beyond-double", "VAL(STRING$(400, \"9\"))".to_string(), f64::INFINITY),
        ("builtin:len-beyond-integer", "LEN(SPACE$(20000) + SPACE$(20000))".to_string(), 40000.0),
        ("builtin:instr-beyond-integer", "INSTR(SPACE$(20000) + SPACE$(20000) + \"x\", \"x\")".to_string(), 40001.0),
        ("builtin:len-inside-integer", "LEN(SPACE$(20000) + SPACE$(12767))".to_string(), 32767.0),
    ];
    for (route, expr, value) in cases {
        for t in T::ALL {
            let fits = match t {
                T::I => value.abs() <= 32767.0,
                T::L => value.abs() <= 2147483647.0,
                T::S => value.is_finite() && (value as f32).is_finite(),
                T::D => value.is_finite(),
            };
            let mut exp = if fits { vec![Out::Stored(if t == T::S { (value as f32) as f64 } else { value })] } else { vec![Out::Overflow] };
            if route.ends_with("beyond-integer") && fits {
                exp.push(Out::Overflow);
            }
            let tv = format!("TV{}", t.sfx());
            *id += 1;
            let k = *id;
            out.push(Obs { id: k, route, s: T::D, t, v: w(0), lines: vec![format!("{} = 7", tv), format!("{} = {}", tv, expr)], show: Some(format!("PRINT \"K{}\"; {}", k, tv)), stdin: None, data: None, exp, arith: false });
        }
    }
}

fn matrix() -> Vec<Obs> {
    let mut id = 0usize;
    let mut out = vec![];
    for s in T::ALL {
        for t in T::ALL {
            for v in boundary(s) {
                routes_for(&mut id, s, t, v, &mut out);
            }
        }
    }
    arithmetic(&mut id, &mut out);
    logical(&mut id, &mut out);
    huge_text(&mut id, &mut out);
    poke(&mut id, &mut out);
    for_increment(&mut id, &mut out);
    builtin_results(&mut id, &mut out);
    out
}

fn random_case(sh: &mut Shard, tape: &[u32], cfg: &GenCfg, with_calls: bool) -> Result<(), Violation> {
    let prog = if with_calls { Gen::new(tape, cfg).calls_program() } else { Gen::new(tape, cfg).core_program() };
    let r = render(&prog, &Layout::plain());
    sh.eval();
    // the reference run tells which known defects the program touches (and bounds the run)
    sh.journal(&format!("[refsem] {}", r.text));
    let (determined, triggers) = match refsem::run(&prog, 100_000) {
        Outcome::Undetermined(why, t) => {
            if why.contains("limit") || why.contains("budget") {
                // the program may not terminate or may exhaust memory: do not run it
                sh.discard("reference resource limit");
                return Ok(());
            }
            (false, t)
        }
        Outcome::Determined(x) => (true, x.triggers),
    };
    let mut opts = RunOpts::budget(300_000);
    opts.typed_vars = true;
    sh.journal(&r.text);
    let out = match impl_run::run_src(&r.text, &opts) {
        Err(_) => {
            sh.discard("rejected");
            return Ok(());
        }
        Ok(o) => o,
    };
    sh.class(if with_calls { "random:calls" } else { "random:core" });
    if out.statements >= 3 {
        sh.nontrivial(hash64(&r.text));
    }
    if out.typed_anomaly.is_some() && !determined {
        // the reference run stopped being determined before the end: later known-defect triggers are unknown
        sh.discard("anomaly in a program the reference does not determine (cannot be attributed)");
        return Ok(());
    }
    if let Some(a) = out.typed_anomaly {
        let sig = triggers.iter().next().map(|t| t.to_string()).unwrap_or_else(|| if determined { "c06-typed-invariant:random".to_string() } else { "c06-typed-invariant:random-undetermined".to_string() });
        return Err(Violation::new(sig, format!("a variable holds a value outside its type: {}", a), json!({"kind":"random","program": r.text})).exp_obs("every variable holds a value of its declared type at every statement boundary", a));
    }
    Ok(())
}

impl Prop for C06 {
    fn id(&self) -> &'static str {
        "C06"
    }
    fn rule(&self) -> &'static str {
        "(a) Exhaustive matrix: routes {assignment, by-value parameter, FOR initial value, function result, array element, record field, READ, INPUT} x (source type, target type) in {INTEGER, LONG, SINGLE, DOUBLE}^2 x the boundary set of the source type (type minima/maxima and their neighbours, +-0.25/0.5/0.75 around them, 2^24, 2^31 neighbours, values beyond LONG), plus + - * on every ordered pair of reduced boundary values of every type pair and unary minus on the minima. Each observation has an exact expectation: the exactly rounded value (a tie accepts either neighbour) or Overflow (6) at that statement; observations that may overflow run as the last statement of their own program, the others are batched ~60 per program. The typed-variable invariant (every variable, element, field, parameter holds a whole value in range / a finite single / a finite double, whatever the internal tag) is checked at every statement boundary of every run through the tick hook. (b) random core and call programs run under the same invariant. All matrix cases are distinct by construction and non-trivial (at or beyond a boundary or needing rounding); random programs count when >= 3 statements ran."
    }
    fn assumptions(&self) -> Vec<&'static str> {
        vec![
            "SINGLE results are compared after parsing the printed text back to f32 (the printed form is C01/C16's business)",
            "arithmetic cases whose exact result is not representable in f64 are skipped (double rounding)",
            "the invariant is value-level: a SINGLE variable holding an integer-tagged 3 is a value of its type; an INTEGER variable holding 3.5 or 40000 is not",
            "record fields are checked for range/finiteness of their own tag only (field types are not visible in the variable dump)",
        ]
    }
    fn run(&self, sh: &mut Shard) {
        let all = matrix();
        let (may_overflow, stores): (Vec<Obs>, Vec<Obs>) = all.into_iter().partition(|o| o.exp.contains(&Out::Overflow));
        // batches of storing observations
        for (bi, chunk) in stores.chunks(60).enumerate() {
            if !sh.mine(bi as u64) {
                continue;
            }
            let r = run_batch(sh, chunk);
            if let Err(v) = r {
                // find the single culprit for a narrow report
                let mut narrowed = None;
                if v.sig.starts_with("c06-wrong-value") || v.sig.starts_with("c06-unexpected-end") || v.sig.starts_with("c06-typed") || v.sig.starts_with("c06-batch-end") || v.sig.starts_with("int-arith") {
                    for o in chunk {
                        if let Err(e) = run_batch(sh, std::slice::from_ref(o)) {
                            narrowed = Some(e);
                            break;
                        }
                    }
                }
                if !sh.report(Err(narrowed.unwrap_or(v))) {
                    return;
                }
            }
        }
        for (k, o) in may_overflow.iter().enumerate() {
            if !sh.mine(k as u64) {
                continue;
            }
            let r = run_single(sh, o);
            if !sh.report(r) {
                return;
            }
        }
        sh.exhaustive("route x (source type, target type) x boundary-value matrix; + - * over reduced boundary pairs of every type pair");
        sh.sample(|| obs_json(&may_overflow[sh_index(may_overflow.len(), 3)]));
        sh.sample(|| obs_json(&stores[sh_index(stores.len(), 7)]));
        // random programs under the invariant
        let cases = sh.share(sh.tier.pick(6_000, 300_000));
        let mut cfg = GenCfg::core(sh.tier.pick(14, 30), 3);
        cfg.errors = false;
        sh.search(1, cases / 2, 40, 300, |sh, tape| random_case(sh, tape, &cfg, false));
        let mut cfg2 = GenCfg::core(10, 2);
        cfg2.procs = true;
        cfg2.data = false;
        cfg2.deftypes = false;
        cfg2.errors = false;
        sh.search(2, cases / 2, 60, 400, |sh, tape| random_case(sh, tape, &cfg2, true));
    }
    fn replay(&self, sh: &mut Shard, inputs: &Value) -> Result<(), Violation> {
        let text = inputs["program"].as_str().unwrap_or("");
        let stdin = inputs["stdin"].as_str().unwrap_or("");
        let mut opts = RunOpts::budget(3_000_000).with_stdin(stdin.as_bytes());
        opts.typed_vars = true;
        let out = match impl_run::run_src(text, &opts) {
            Err(e) => return Err(Violation::new(format!("c06-rejected:{}", e.class()), "program rejected", inputs.clone()).exp_obs("accepted", e.to_json())),
            Ok(o) => o,
        };
        let _ = sh;
        let (marked, _) = parse_marked(&out.stdout_str());
        let mut raised = matches!(out.end, End::Err { code: Some(6), .. });
        for e in inputs["expect"].as_array().cloned().unwrap_or_default() {
            let id = e["id"].as_u64().unwrap_or(0) as usize;
            let t = match e["type"].as_str().unwrap_or("D") {
                "I" => T::I,
                "L" => T::L,
                "S" => T::S,
                _ => T::D,
            };
            let arith = e["arith"].as_bool().unwrap_or(false);
            let outcomes = e["outcomes"].as_array().cloned().unwrap_or_default();
            let ok = match marked.get(&id).filter(|p| !p.is_empty()) {
                Some(p) => outcomes.iter().any(|o| o.as_f64().map(|w| value_matches(t, p, w)).unwrap_or(false)),
                None => {
                    let r = raised && outcomes.iter().any(|o| o == "overflow");
                    raised = false;
                    r
                }
            };
            if !ok {
                let sig = if arith { "int-arith-overflow-unguarded".to_string() } else { "c06-replay-mismatch".to_string() };
                return Err(Violation::new(sig, format!("observation K{} differs from its accepted outcomes", id), inputs.clone()).exp_obs(json!(outcomes), json!({"printed": marked.get(&id), "end": out.end.to_json()})));
            }
        }
        if let Some(a) = out.typed_anomaly {
            let arith = inputs["expect"].as_array().map(|a| a.iter().any(|e| e["arith"].as_bool().unwrap_or(false))).unwrap_or(false);
            let sig = if arith { "int-arith-overflow-unguarded".to_string() } else { "c06-typed-invariant:replay".to_string() };
            return Err(Violation::new(sig, format!("a variable holds a value outside its type: {}", a), inputs.clone()));
        }
        Ok(())
    }
}

fn sh_index(len: usize, k: usize) -> usize {
    if len == 0 { 0 } else { k % len }
}

//! Enumerated "shape" programs: every block construct nested in every other,
//! around calls, GOSUBs and jumps. Text templates; used by C15 (and others) to get
//! complete pairwise (and sampled triple) coverage of construct nestings.

use crate::engine::{Shard, Violation};

pub const ENCLOSERS: [&str; 14] = ["none", "for", "for-step1", "for-step-neg", "for-step-computed", "while", "do-while-top", "do-until-top", "do-while-bottom", "do-until-bottom", "if", "if-else", "select", "select-else"];

/// Wraps `body` in encloser `e`; `u` makes variable names unique per nesting level.
pub fn wrap(e: &str, body: &[String], u: usize) -> Vec<String> {
    let ind = |v: &[String]| -> Vec<String> { v.iter().map(|l| format!("  {}", l)).collect() };
    let mut out = vec![];
    match e {
        "none" => out.extend(body.iter().cloned()),
        "for" => {
            out.push(format!("FOR Q{}% = 1 TO 2", u));
            out.extend(ind(body));
            out.push("NEXT".into());
        }
        "for-step1" => {
            out.push(format!("FOR Q{}% = 1 TO 2 STEP 1", u));
            out.extend(ind(body));
            out.push(format!("NEXT Q{}%", u));
        }
        "for-step-neg" => {
            out.push(format!("FOR Q{}% = 2 TO 1 STEP -1", u));
            out.extend(ind(body));
            out.push("NEXT".into());
        }
        "for-step-computed" => {
            out.push(format!("ST{}% = 1 - 2", u));
            out.push(format!("FOR Q{}% = 2 TO 1 STEP ST{}%", u, u));
            out.extend(ind(body));
            out.push("NEXT".into());
        }
        "while" => {
            out.push(format!("W{}% = 0", u));
            out.push(format!("WHILE W{}% < 2", u));
            out.extend(ind(body));
            out.push(format!("  W{}% = W{}% + 1", u, u));
            out.push("WEND".into());
        }
        "do-while-top" => {
            out.push(format!("W{}% = 0", u));
            out.push(format!("DO WHILE W{}% < 2", u));
            out.extend(ind(body));
            out.push(format!("  W{}% = W{}% + 1", u, u));
            out.push("LOOP".into());
        }
        "do-until-top" => {
            out.push(format!("W{}% = 0", u));
            out.push(format!("DO UNTIL W{}% >= 2", u));
            out.extend(ind(body));
            out.push(format!("  W{}% = W{}% + 1", u, u));
            out.push("LOOP".into());
        }
        "do-while-bottom" => {
            out.push(format!("W{}% = 0", u));
            out.push("DO".into());
            out.extend(ind(body));
            out.push(format!("  W{}% = W{}% + 1", u, u));
            out.push(format!("LOOP WHILE W{}% < 2", u));
        }
        "do-until-bottom" => {
            out.push(format!("W{}% = 0", u));
            out.push("DO".into());
            out.extend(ind(body));
            out.push(format!("  W{}% = W{}% + 1", u, u));
            out.push(format!("LOOP UNTIL W{}% >= 2", u));
        }
        "if" => {
            out.push("IF -1 THEN".into());
            out.extend(ind(body));
            out.push("END IF".into());
        }
        "if-else" => {
            out.push(format!("IF C{}% = 99 THEN", u));
            out.push("  PRINT \"never\"".into());
            out.push(format!("ELSEIF C{}% = 0 THEN", u));
            out.extend(ind(body));
            out.push("ELSE".into());
            out.push("  PRINT \"never\"".into());
            out.push("END IF".into());
        }
        "select" => {
            out.push(format!("SELECT CASE C{}% + 1", u));
            out.push("CASE 5, 6 TO 7".into());
            out.push("  PRINT \"never\"".into());
            out.push("CASE 0, IS > 0".into());
            out.extend(ind(body));
            out.push("END SELECT".into());
        }
        "select-else" => {
            out.push(format!("SELECT CASE C{}%", u));
            out.push("CASE 5".into());
            out.push("  PRINT \"never\"".into());
            out.push("CASE ELSE".into());
            out.extend(ind(body));
            out.push("END SELECT".into());
        }
        other => panic!("unknown encloser {}", other),
    }
    out
}

pub const INNERS: [&str; 12] = ["print", "assign-chain", "sub-call-byref", "function-in-expr", "gosub", "array-elem", "record-field", "nested-function-args", "string-ops", "static-sub", "print-list", "select-strings"];

/// (statements, support code appended after END: procedures / gosub routines / declarations first)
pub fn inner(i: &str) -> (Vec<String>, Vec<String>, Vec<String>) {
    let s = |v: &[&str]| -> Vec<String> { v.iter().map(|x| x.to_string()).collect() };
    match i {
        "print" => (s(&["N% = N% + 1", "PRINT \"n\"; N%"]), vec![], vec![]),
        "assign-chain" => (s(&["A% = A% + 1", "B& = A% * 2", "C! = B& / 4", "PRINT A%; B&; C!"]), vec![], vec![]),
        "sub-call-byref" => (s(&["Bump N%, 3", "PRINT N%"]), vec![], s(&["SUB Bump (X%, D%)", "  X% = X% + D%", "END SUB"])),
        "function-in-expr" => (s(&["R% = Twice%(N% + 1) + Twice%(2)", "N% = N% + 1", "PRINT R%"]), vec![], s(&["FUNCTION Twice% (X%)", "  Twice% = X% * 2", "END FUNCTION"])),
        "gosub" => (s(&["GOSUB Routine", "PRINT \"back\"; G%"]), vec![], s(&["Routine:", "G% = G% + 1", "RETURN"])),
        "array-elem" => (s(&["N% = N% + 1", "Arr%(N% MOD 3) = N%", "PRINT Arr%(0); Arr%(1); Arr%(2)"]), s(&["DIM Arr%(2)"]), vec![]),
        "record-field" => (s(&["Rec.A = Rec.A + 1", "Rec.B = \"xy\"", "PRINT Rec.A; Rec.B"]), s(&["TYPE RecT", "  A AS INTEGER", "  B AS STRING * 3", "END TYPE", "DIM Rec AS RecT"]), vec![]),
        "nested-function-args" => (s(&["PRINT Add%(Add%(1, 2), Add%(N%, 4))", "N% = N% + 1"]), vec![], s(&["FUNCTION Add% (X%, Y%)", "  Add% = X% + Y%", "END FUNCTION"])),
        "string-ops" => (s(&["T$ = T$ + \"a\"", "PRINT LEN(T$); UCASE$(T$); LEFT$(T$ + \"bc\", 2)"]), vec![], vec![]),
        "static-sub" => (s(&["Counter", "Counter"]), vec![], s(&["SUB Counter STATIC", "  K% = K% + 1", "  PRINT \"k\"; K%", "END SUB"])),
        "print-list" => (s(&["PRINT 1, \"a\"; 2.5,", "PRINT -3"]), vec![], vec![]),
        "select-strings" => (s(&["T$ = T$ + \"b\"", "SELECT CASE T$", "CASE \"b\"", "  PRINT \"one\"", "CASE \"bb\" TO \"bbbb\"", "  PRINT \"more\"", "CASE ELSE", "  PRINT \"else\"", "END SELECT"]), vec![], vec![]),
        other => panic!("unknown inner {}", other),
    }
}

/// Assembles a full program: declarations, main body, END, then routines and procedures.
/// Routines (label ... RETURN) stay in the main module after END; procedures come last.
pub fn assemble(decls: &[String], body: &[String], tail: &[String]) -> String {
    let mut lines: Vec<String> = vec![];
    lines.extend(decls.iter().cloned());
    lines.extend(body.iter().cloned());
    lines.push("END".into());
    let (procs, routines): (Vec<String>, Vec<String>) = {
        let mut procs = vec![];
        let mut routines = vec![];
        let mut in_proc = false;
        for l in tail {
            let t = l.trim_start();
            if t.starts_with("SUB ") || t.starts_with("FUNCTION ") {
                in_proc = true;
            }
            if in_proc {
                procs.push(l.clone());
            } else {
                routines.push(l.clone());
            }
            if t.starts_with("END SUB") || t.starts_with("END FUNCTION") {
                in_proc = false;
            }
        }
        (procs, routines)
    };
    lines.extend(routines);
    lines.extend(procs);
    let mut s = lines.join("\n");
    s.push('\n');
    s
}

/// All pairwise nestings encloser × encloser × inner (14 × 14 × 12 = 2352 programs).
pub fn pair_program(e1: usize, e2: usize, i: usize) -> String {
    let (stmts, decls, tail) = inner(INNERS[i]);
    let inner_wrapped = wrap(ENCLOSERS[e2], &stmts, 2);
    let outer = wrap(ENCLOSERS[e1], &inner_wrapped, 1);
    assemble(&decls, &outer, &tail)
}

pub fn pair_count() -> usize {
    ENCLOSERS.len() * ENCLOSERS.len() * INNERS.len()
}

pub fn pair_by_index(k: usize) -> String {
    let i = k % INNERS.len();
    let e2 = (k / INNERS.len()) % ENCLOSERS.len();
    let e1 = k / (INNERS.len() * ENCLOSERS.len());
    pair_program(e1, e2, i)
}

/// The same nestings placed inside a SUB body that is called twice from the main module.
pub fn pair_in_sub(k: usize) -> String {
    let i = k % INNERS.len();
    let e2 = (k / INNERS.len()) % ENCLOSERS.len();
    let e1 = k / (INNERS.len() * ENCLOSERS.len());
    let (stmts, decls, tail) = inner(INNERS[i]);
    if INNERS[i] == "gosub" || !decls.is_empty() {
        // routines and module-level declarations do not move into a SUB
        return pair_program(e1, e2, i);
    }
    let inner_wrapped = wrap(ENCLOSERS[e2], &stmts, 2);
    let outer = wrap(ENCLOSERS[e1], &inner_wrapped, 1);
    let mut t = vec!["SUB Outer".to_string()];
    t.extend(outer.iter().map(|l| format!("  {}", l)));
    t.push("END SUB".to_string());
    t.extend(tail);
    assemble(&decls, &["Outer".to_string(), "Outer".to_string()], &t)
}

/// Runs `f` on this shard's share of the enumerated shape programs.
pub fn run_all(sh: &mut Shard, f: &mut dyn FnMut(&mut Shard, &str, &str) -> Result<(), Violation>) {
    let n = pair_count();
    for k in 0..n {
        if !sh.mine(k as u64) {
            continue;
        }
        let text = pair_by_index(k);
        let r = f(sh, &text, "shape-pair");
        if !sh.report(r) {
            return;
        }
        if sh.tier == crate::engine::Tier::Thorough || k % 3 == 0 {
            let text = pair_in_sub(k);
            let r = f(sh, &text, "shape-pair-in-sub");
            if !sh.report(r) {
                return;
            }
        }
    }
    sh.exhaustive("all pairwise nestings of 14 enclosing constructs x 14 x 12 inner statement groups");
}

/// Dense position grids: the same kind of construct at many (row, column) positions of one program
/// (1-3 digit rows, 1-2 digit columns, several per row), each construct printing one token.
/// Whatever the generated labels are derived from, two constructs must never share them.
pub const GRID_KINDS: [&str; 7] = ["if-line", "while", "for", "do", "select", "if-block", "static-dim"];

/// A STATIC SUB / FUNCTION whose DIM statements (1-3 variables each: arrays, scalars, records of both spellings, several
/// statements per row) are guarded so that they run once: every array element counts the calls, so each of the three calls
/// must print, per array, its own running count.
fn static_dim_program(variant: usize) -> (String, String) {
    let is_fn = variant % 2 == 1;
    let mut body: Vec<String> = vec![];
    let mut arrays: Vec<String> = vec![];
    let mut fixed: Vec<String> = vec![];
    let mut k = 0usize;
    for r in 1..=40usize {
        let indent = 2 + (r * (3 + variant)) % 9;
        let mut line = " ".repeat(indent);
        let per_row = 1 + (r + variant) % 2;
        for j in 0..per_row {
            if j > 0 {
                line.push_str(": ");
            }
            let nvars = 1 + (r + j + variant) % 3;
            let mut decls: Vec<String> = vec![];
            for v in 0..nvars {
                k += 1;
                let d = match (k + variant) % 6 {
                    5 => {
                        fixed.push(format!("ZF{}", k));
                        format!("ZF{}(1 TO 2) AS STRING * 4", k)
                    }
                    0 => {
                        arrays.push(format!("ZA{}%", k));
                        format!("ZA{}%(1 TO 3)", k)
                    }
                    1 => format!("ZN{} AS INTEGER", k),
                    2 => {
                        arrays.push(format!("ZB{}", k));
                        format!("ZB{}(2) AS LONG", k)
                    }
                    3 => format!("ZS{}$", k),
                    _ => {
                        arrays.push(format!("ZC{}#", k));
                        format!("ZC{}#({})", k, 1 + v)
                    }
                };
                decls.push(d);
            }
            line.push_str(&format!("DIM {}", decls.join(", ")));
        }
        body.push(line);
    }
    for a in &arrays {
        body.push(format!("  {}(1) = {}(1) + 1: PRINT \"{}\"; {}(1)", a, a, a, a));
    }
    // arrays of fixed-length strings collect one letter per call
    for a in &fixed {
        body.push(format!("  {}(2) = RTRIM$({}(2)) + \"x\": PRINT \"{}[\"; {}(2); \"]\"", a, a, a, a));
    }
    let mut lines: Vec<String> = vec![];
    let mut expected = String::new();
    for call in 1..=3 {
        lines.push(if is_fn { "ZQ% = ZP%".to_string() } else { "ZP".to_string() });
        for a in &arrays {
            expected.push_str(&format!("{} {} \r\n", a, call));
        }
        for a in &fixed {
            expected.push_str(&format!("{}[{}{}]\r\n", a, "x".repeat(call), " ".repeat(4 - call)));
        }
    }
    lines.push(if is_fn { "FUNCTION ZP% STATIC".to_string() } else { "SUB ZP STATIC".to_string() });
    lines.extend(body);
    if is_fn {
        lines.push("  ZP% = 1".to_string());
    }
    lines.push(if is_fn { "END FUNCTION".to_string() } else { "END SUB".to_string() });
    let mut text = lines.join("\n");
    text.push('\n');
    (text, expected)
}

pub fn grid_program(kind: usize, variant: usize) -> (String, String) {
    if GRID_KINDS[kind] == "static-dim" {
        return static_dim_program(variant);
    }
    let mut lines: Vec<String> = vec![];
    let mut expected = String::new();
    let mut tok = 0usize;
    let rows = 124;
    for r in 1..=rows {
        let indent = (r * (3 + variant)) % 12;
        let mut line = " ".repeat(indent);
        let per_row = 1 + (r + variant) % 3;
        for j in 0..per_row {
            tok += 1;
            if j > 0 {
                line.push_str(": ");
            }
            // every construct runs its body exactly once
            let piece = match GRID_KINDS[kind] {
                "if-line" => format!("IF -1 THEN PRINT \"t{}\"", tok),
                "while" => format!("ZW = 0: WHILE ZW < 1: ZW = ZW + 1: PRINT \"t{}\": WEND", tok),
                "for" => format!("FOR ZF = 1 TO 1: PRINT \"t{}\": NEXT", tok),
                "do" => format!("DO: PRINT \"t{}\": LOOP UNTIL -1", tok),
                // (CASE needs a line of its own; the next construct follows END SELECT on the same line)
                "select" => format!("SELECT CASE 1\nCASE 1: PRINT \"t{}\"\nEND SELECT", tok),
                _ => format!("IF -1 THEN: PRINT \"t{}\": END IF", tok),
            };
            // a single-line IF swallows the rest of the line: one per row, at varying columns
            if GRID_KINDS[kind] == "if-line" {
                if j == 0 {
                    let pad = (r * 5 + variant) % 23;
                    line.push_str(&format!("ZP = {}: ", "1".repeat(1 + pad % 9)));
                    line.push_str(&piece);
                    expected.push_str(&format!("t{}\r\n", tok));
                }
                break;
            }
            line.push_str(&piece);
            expected.push_str(&format!("t{}\r\n", tok));
        }
        lines.push(line);
    }
    let mut text = lines.join("\n");
    text.push('\n');
    (text, expected)
}

//! C17 — string functions satisfy their defining equations.
//!
//! Generated BASIC programs print one marked line per observation; the lines are
//! compared with native reference implementations written from the statement.

use std::collections::BTreeMap;

use serde_json::{Value, json};

use crate::engine::{Shard, Tape, Violation, hash64};
use crate::impl_run::{self, End, RunOpts};
use crate::props::Prop;

pub struct C17;

const BUDGET: u64 = 20_000_000;

// ------------------------------------------------------------------------------------------------
// reference semantics, written from the property statement (None = Illegal function call, 5)
// ------------------------------------------------------------------------------------------------

fn r_left(s: &[u8], n: i64) -> Option<Vec<u8>> {
    if n < 0 {
        return None;
    }
    let k = (n as usize).min(s.len());
    Some(s[..k].to_vec())
}

fn r_right(s: &[u8], n: i64) -> Option<Vec<u8>> {
    if n < 0 {
        return None;
    }
    let k = (n as usize).min(s.len());
    Some(s[s.len() - k..].to_vec())
}

fn r_mid2(s: &[u8], n: i64) -> Option<Vec<u8>> {
    if n <= 0 {
        return None;
    }
    let st = (n - 1) as usize;
    if st >= s.len() { Some(vec![]) } else { Some(s[st..].to_vec()) }
}

fn r_mid3(s: &[u8], n: i64, m: i64) -> Option<Vec<u8>> {
    if n <= 0 || m < 0 {
        return None;
    }
    let st = (n - 1) as usize;
    if st >= s.len() {
        return Some(vec![]);
    }
    let end = st.saturating_add(m as usize).min(s.len());
    Some(s[st..end].to_vec())
}

/// Least position >= n (1-based) where non-empty t occurs in s, else 0.
fn r_instr(n: i64, s: &[u8], t: &[u8]) -> Option<i64> {
    debug_assert!(!t.is_empty());
    if n <= 0 {
        return None;
    }
    let mut p = n as usize;
    while p - 1 + t.len() <= s.len() {
        if &s[p - 1..p - 1 + t.len()] == t {
            return Some(p as i64);
        }
        p += 1;
    }
    Some(0)
}

fn r_ucase(s: &[u8]) -> Vec<u8> {
    s.iter().map(|b| if b.is_ascii_lowercase() { b - 32 } else { *b }).collect()
}

fn r_lcase(s: &[u8]) -> Vec<u8> {
    s.iter().map(|b| if b.is_ascii_uppercase() { b + 32 } else { *b }).collect()
}

fn r_ltrim(s: &[u8]) -> Vec<u8> {
    let k = s.iter().take_while(|b| **b == 32).count();
    s[k..].to_vec()
}

fn r_rtrim(s: &[u8]) -> Vec<u8> {
    let k = s.iter().rev().take_while(|b| **b == 32).count();
    s[..s.len() - k].to_vec()
}

/// NOT an oracle: the behaviour of the known defect (whitespace instead of blanks), used only to
/// give that defect its own narrow signature.
fn is_ws(b: u8) -> bool {
    matches!(b, 9 | 10 | 11 | 12 | 13 | 32)
}
fn alt_ltrim(s: &[u8]) -> Vec<u8> {
    let k = s.iter().take_while(|b| is_ws(**b)).count();
    s[k..].to_vec()
}
fn alt_rtrim(s: &[u8]) -> Vec<u8> {
    let k = s.iter().rev().take_while(|b| is_ws(**b)).count();
    s[..s.len() - k].to_vec()
}

// ------------------------------------------------------------------------------------------------
// rendering of values and arguments
// ------------------------------------------------------------------------------------------------

fn bstr(v: &[u8]) -> String {
    String::from_utf8_lossy(v).to_string()
}

fn fmt_num(n: i64) -> String {
    if n < 0 { format!("{} ", n) } else { format!(" {} ", n) }
}

/// BASIC expression for a byte string: quoted runs, CHR$(n) for the quote and control characters.
fn lit(v: &[u8]) -> String {
    if v.is_empty() {
        return "\"\"".to_string();
    }
    let mut parts: Vec<String> = vec![];
    let mut cur = String::new();
    // The pinned parser rejects a string literal that holds more than 40 consecutive identifier
    // characters (IdentifierTooLong, a known finding probed separately): split such runs.
    let mut run = 0usize;
    for &b in v {
        if (32..=126).contains(&b) && b != 34 {
            if b.is_ascii_alphanumeric() || b == b'.' {
                run += 1;
                if run > 30 {
                    parts.push(format!("\"{}\"", cur));
                    cur.clear();
                    run = 1;
                }
            } else {
                run = 0;
            }
            cur.push(b as char);
        } else {
            run = 0;
            if !cur.is_empty() {
                parts.push(format!("\"{}\"", cur));
                cur.clear();
            }
            parts.push(format!("CHR$({})", b));
        }
    }
    if !cur.is_empty() {
        parts.push(format!("\"{}\"", cur));
    }
    if parts.len() == 1 { parts.pop().unwrap() } else { format!("({})", parts.join(" + ")) }
}

fn cat(a: &[u8], b: &[u8]) -> Vec<u8> {
    let mut v = a.to_vec();
    v.extend_from_slice(b);
    v
}

#[derive(Clone, Copy, PartialEq, Eq, Debug, Hash)]
enum Form {
    Lit,
    Var,
    Nest,
}

impl Form {
    fn name(&self) -> &'static str {
        match self {
            Form::Lit => "literal",
            Form::Var => "variable",
            Form::Nest => "nested-call",
        }
    }
}

const FORMS: [Form; 3] = [Form::Lit, Form::Var, Form::Nest];

/// Renders arguments in the requested form; `setup` collects the assignments needed before the PRINT.
struct Args {
    form: Form,
    rot: u64,
    uses: u64,
    /// no variables at all (programs that continue after a handled error: known context leak)
    litonly: bool,
    setup: String,
    nv: u32,
    /// the inner calls of nested-call arguments, each as an observation of its own (used to
    /// attribute a failing nested observation to the function that is actually wrong)
    inner: Vec<(&'static str, String, Val)>,
}

impl Args {
    fn new(form: Form, rot: u64, litonly: bool) -> Args {
        let form = if litonly && form == Form::Var { Form::Lit } else { form };
        Args { form, rot, uses: 0, litonly, setup: String::new(), nv: 0, inner: vec![] }
    }
    fn pickn(&mut self, n: u64) -> u64 {
        self.uses += 1;
        hash64(&(self.rot, self.uses)) % n
    }
    fn fresh(&mut self, stem: &str, suffix: &str) -> String {
        self.nv += 1;
        format!("{}{}{}", stem, self.nv, suffix)
    }
    fn svar(&mut self, v: &[u8]) -> String {
        let name = self.fresh("s", "$");
        self.setup.push_str(&format!("{} = {}: ", name, lit(v)));
        name
    }
    /// A string-valued argument whose value is `v`.
    fn s(&mut self, v: &[u8]) -> String {
        match self.form {
            Form::Lit => lit(v),
            Form::Var => self.svar(v),
            Form::Nest => {
                let l = v.len();
                let k = self.pickn(6);
                let (func, lit_expr): (&'static str, String) = match k {
                    0 => ("mid2", format!("MID$({}, 2)", lit(&cat(b"B", v)))),
                    1 => ("left", format!("LEFT$({}, {})", lit(&cat(v, b"a ")), l)),
                    2 => ("right", format!("RIGHT$({}, {})", lit(&cat(b"aB", v)), l)),
                    3 => ("mid3", format!("MID$({}, 2, {})", lit(&cat(&cat(b"a", v), b"B")), l)),
                    4 => ("mid2", format!("MID$({}, 3)", lit(&cat(b"B ", v)))),
                    _ => ("law-left-mid", format!("(LEFT$({}, {}) + MID$({}, {}))", lit(v), l / 2, lit(v), l / 2 + 1)),
                };
                self.inner.push((func, lit_expr.clone(), Val::S(v.to_vec())));
                match k {
                    4 if !self.litonly => {
                        let w = self.svar(&cat(b"B ", v));
                        format!("MID$({}, 3)", w)
                    }
                    5 if !self.litonly => {
                        let x = self.svar(v);
                        format!("(LEFT$({}, {}) + MID$({}, {}))", x, l / 2, x, l / 2 + 1)
                    }
                    _ => lit_expr,
                }
            }
        }
    }
    /// A numeric argument whose value is `v`.
    fn n(&mut self, v: i64) -> String {
        let form = if self.form == Form::Nest && v.abs() > 70 { if self.litonly { Form::Lit } else { Form::Var } } else { self.form };
        match form {
            Form::Lit => v.to_string(),
            Form::Var => {
                let suffix = if self.pickn(3) == 2 { "&" } else { "%" };
                let name = self.fresh("n", suffix);
                self.setup.push_str(&format!("{} = {}: ", name, v));
                name
            }
            Form::Nest => {
                let (func, e): (&'static str, String) = if v >= 0 {
                    match self.pickn(4) {
                        0 => ("len", format!("LEN({})", lit(&vec![b'a'; v as usize]))),
                        1 => ("val-str", format!("VAL(STR$({}))", v)),
                        2 => {
                            if v >= 1 {
                                let mut h = vec![b'B'; (v - 1) as usize];
                                h.push(b'a');
                                ("instr2", format!("INSTR({}, \"a\")", lit(&h)))
                            } else {
                                ("instr2", "INSTR(\"B\", \"a\")".to_string())
                            }
                        }
                        _ => ("len-of-space", format!("LEN(SPACE$({}))", v)),
                    }
                } else {
                    let k = -v;
                    match self.pickn(4) {
                        0 => ("len", format!("(LEN(\"\") - {})", k)),
                        1 => ("val-str", format!("VAL(STR$({}))", v)),
                        2 => ("instr2", format!("(INSTR(\"B\", \"a\") - {})", k)),
                        _ => ("len", format!("-LEN({})", lit(&vec![b'a'; k as usize]))),
                    }
                };
                self.inner.push((func, e.clone(), Val::N(v)));
                e
            }
        }
    }
}

// ------------------------------------------------------------------------------------------------
// observations
// ------------------------------------------------------------------------------------------------

#[derive(Clone, Debug, PartialEq)]
enum Val {
    S(Vec<u8>),
    N(i64),
}

fn vals_out(vals: &[Val]) -> String {
    let mut o = String::new();
    for v in vals {
        match v {
            Val::S(b) => {
                o.push('[');
                o.push_str(&bstr(b));
                o.push(']');
            }
            Val::N(n) => o.push_str(&fmt_num(*n)),
        }
    }
    o
}

#[derive(Clone, Debug)]
struct Obs {
    func: &'static str,
    class: String,
    form: Form,
    setup: String,
    /// printed items: (expression, is_string)
    items: Vec<(String, bool)>,
    /// None: the call must raise Illegal function call (5)
    exp: Option<Vec<Val>>,
    /// known-defect model (signature only)
    alt: Option<(&'static str, Vec<Val>)>,
    /// inner calls of nested arguments: (function, expression, value it must have)
    inner: Vec<(&'static str, String, Val)>,
}

impl Obs {
    fn items_src(&self) -> String {
        self.items.iter().map(|(e, is_s)| if *is_s { format!("\"[\" + {} + \"]\"", e) } else { e.clone() }).collect::<Vec<_>>().join("; ")
    }
    fn expr_text(&self) -> String {
        format!("{}{}", self.setup, self.items.iter().map(|(e, _)| e.clone()).collect::<Vec<_>>().join(" ; "))
    }
    fn fingerprint(&self) -> u64 {
        hash64(&(self.func, self.form, &self.setup, self.items.iter().map(|(e, _)| e.as_str()).collect::<Vec<_>>()))
    }
}

#[derive(Clone, Copy, PartialEq, Eq, Debug)]
enum Mode {
    /// PRINT lines one after the other, no error expected
    Plain,
    /// ON ERROR GOTO h / PRINT "E"; ERR / RESUME NEXT, literal arguments only
    Handler,
    /// one observation, the failing call is the last statement of the program
    Last,
}

impl Mode {
    fn name(&self) -> &'static str {
        match self {
            Mode::Plain => "plain",
            Mode::Handler => "handler",
            Mode::Last => "last",
        }
    }
    fn parse(s: &str) -> Mode {
        match s {
            "handler" => Mode::Handler,
            "last" => Mode::Last,
            _ => Mode::Plain,
        }
    }
}

#[derive(Clone, Debug)]
struct LineSpec {
    marker: u64,
    func: String,
    expr: String,
    /// expected output line; None = Illegal function call (5) expected
    exp: Option<String>,
    alt: Option<(String, String)>,
    row_from: u32,
    row_to: u32,
}

#[derive(Clone, Debug)]
struct Prog {
    mode: Mode,
    src: String,
    lines: Vec<LineSpec>,
}

impl Prog {
    fn to_json(&self) -> Value {
        json!({
            "kind": "prog",
            "mode": self.mode.name(),
            "program": self.src,
            "lines": self.lines.iter().map(|l| json!({
                "marker": l.marker, "func": l.func, "expr": l.expr, "exp": l.exp,
                "alt": l.alt.as_ref().map(|(a, b)| json!([a, b])),
                "rows": [l.row_from, l.row_to],
            })).collect::<Vec<_>>(),
        })
    }
    fn from_json(v: &Value) -> Prog {
        Prog {
            mode: Mode::parse(v["mode"].as_str().unwrap_or("plain")),
            src: v["program"].as_str().unwrap_or("").to_string(),
            lines: v["lines"]
                .as_array()
                .map(|a| {
                    a.iter()
                        .map(|l| LineSpec {
                            marker: l["marker"].as_u64().unwrap_or(0),
                            func: l["func"].as_str().unwrap_or("").to_string(),
                            expr: l["expr"].as_str().unwrap_or("").to_string(),
                            exp: l["exp"].as_str().map(|s| s.to_string()),
                            alt: l["alt"].as_array().map(|p| (p[0].as_str().unwrap_or("").to_string(), p[1].as_str().unwrap_or("").to_string())),
                            row_from: l["rows"][0].as_u64().unwrap_or(0) as u32,
                            row_to: l["rows"][1].as_u64().unwrap_or(0) as u32,
                        })
                        .collect()
                })
                .unwrap_or_default(),
        }
    }
}

fn marker_prefix(mode: Mode, k: u64) -> String {
    match mode {
        Mode::Handler => format!("K{}:", k),
        _ => format!("K{}", k),
    }
}

/// Renders observations (with their markers) into one program.
fn render(mode: Mode, obs: &[(u64, &Obs)]) -> Prog {
    let mut src = String::new();
    let mut lines = vec![];
    let mut row: u32 = 1;
    if mode == Mode::Handler {
        src.push_str("ON ERROR GOTO h\n");
        row += 1;
    }
    for (k, o) in obs {
        let from = row;
        match mode {
            Mode::Plain => {
                src.push_str(&format!("{}PRINT \"K{}\"; {}\n", o.setup, k, o.items_src()));
                row += 1;
            }
            Mode::Handler => {
                src.push_str(&format!("PRINT \"K{}:\";\n{}PRINT {}\n", k, o.setup, o.items_src()));
                row += 2;
            }
            Mode::Last => {
                src.push_str(&format!("{}PRINT \"A\"\nPRINT {}\n", o.setup, o.items_src()));
                row += 2;
            }
        }
        let pre = marker_prefix(mode, *k);
        lines.push(LineSpec {
            marker: *k,
            func: o.func.to_string(),
            expr: o.expr_text(),
            exp: o.exp.as_ref().map(|v| format!("{}{}", pre, vals_out(v))),
            alt: o.alt.as_ref().map(|(n, v)| (n.to_string(), format!("{}{}", pre, vals_out(v)))),
            row_from: from,
            row_to: row - 1,
        });
    }
    if mode == Mode::Handler {
        src.push_str("END\nh:\nPRINT \"E\"; ERR\nRESUME NEXT\n");
    }
    Prog { mode, src, lines }
}

struct CheckOut {
    /// (index into prog.lines if the violation belongs to one observation, violation)
    viols: Vec<(Option<usize>, Violation)>,
    inconclusive: Option<String>,
    /// observations whose line was lost behind an earlier failure
    lost: u64,
}

fn err_code_name(code: &Option<i32>, name: &str) -> String {
    match code {
        Some(c) => c.to_string(),
        None => name.split(|c: char| !c.is_alphanumeric()).next().unwrap_or("?").to_string(),
    }
}

fn mk_viol(prog: &Prog, spec: Option<&LineSpec>, kind: &str, what: String, expected: Value, observed: Value) -> Violation {
    let func = spec.map(|s| s.func.as_str()).unwrap_or("program");
    let mut inputs = prog.to_json();
    if let (Value::Object(m), Some(s)) = (&mut inputs, spec) {
        m.insert("focus".to_string(), json!({"marker": s.marker, "func": s.func, "expr": s.expr}));
    }
    let what = match spec {
        Some(s) => format!("{}: {} [{}]", s.func, what, s.expr),
        None => what,
    };
    Violation::new(format!("{}:{}", func, kind), what, inputs).exp_obs(expected, observed)
}

/// Runs a rendered program and compares its output line by line. Pure function of `prog`.
fn check_prog(prog: &Prog) -> CheckOut {
    let mut co = CheckOut { viols: vec![], inconclusive: None, lost: 0 };
    let out = match impl_run::run_src(&prog.src, &RunOpts::budget(BUDGET)) {
        Err(fe) => {
            let idx = fe.pos().and_then(|(r, _)| prog.lines.iter().position(|l| l.row_from <= r && r <= l.row_to));
            let spec = idx.map(|i| &prog.lines[i]);
            let mut v = mk_viol(prog, spec, "rejected", "generated program was rejected before running".to_string(), json!("accepted"), fe.to_json());
            // one root cause in the front end, whatever function the rejected line applies
            v.sig = format!("rejected:{}", fe.class());
            co.viols.push((idx, v));
            co.lost = prog.lines.len() as u64;
            return co;
        }
        Ok(o) => o,
    };
    if out.end == End::Budget {
        co.inconclusive = Some("instruction budget exhausted".to_string());
        return co;
    }
    let stdout = out.stdout_str();
    if prog.mode == Mode::Last {
        let spec = &prog.lines[0];
        let observed = json!({"stdout": stdout, "end": out.end.to_json()});
        let expected = json!({"stdout": "A\r\n", "end": "Illegal function call (5)"});
        let kind = match &out.end {
            End::Err { code: Some(5), .. } => {
                if stdout == "A\r\n" { None } else { Some("output-before-error".to_string()) }
            }
            End::Err { code, name, .. } => Some(format!("wrong-error-{}", err_code_name(code, name))),
            End::Ok => Some("no-error".to_string()),
            End::Panic(p) => Some(format!("panic:{}", p.sig())),
            End::Budget => None,
        };
        if let Some(k) = kind {
            co.viols.push((Some(0), mk_viol(prog, Some(spec), &k, "call that must raise Illegal function call (5) as last statement of a program".to_string(), expected, observed)));
        }
        return co;
    }
    // marker -> observed lines
    let mut seen: BTreeMap<u64, Vec<&str>> = BTreeMap::new();
    let mut stray: Vec<&str> = vec![];
    let mut parts: Vec<&str> = stdout.split("\r\n").collect();
    if parts.last() == Some(&"") {
        parts.pop();
    }
    for l in parts {
        let digits: String = l.strip_prefix('K').map(|r| r.chars().take_while(|c| c.is_ascii_digit()).collect()).unwrap_or_default();
        match digits.parse::<u64>() {
            Ok(k) => seen.entry(k).or_default().push(l),
            Err(_) => stray.push(l),
        }
    }
    let mut missing_reported = false;
    for (i, spec) in prog.lines.iter().enumerate() {
        let pre = marker_prefix(prog.mode, spec.marker);
        let expected_line = match &spec.exp {
            Some(e) => e.clone(),
            None => format!("{}E 5 ", pre),
        };
        let got = seen.get(&spec.marker);
        match got {
            None => {
                if missing_reported {
                    co.lost += 1;
                    continue;
                }
                missing_reported = true;
                let kind = match &out.end {
                    End::Err { code, name, .. } => format!("unexpected-error-{}", err_code_name(code, name)),
                    End::Panic(p) => format!("panic:{}", p.sig()),
                    _ => "line-missing".to_string(),
                };
                co.viols.push((Some(i), mk_viol(prog, Some(spec), &kind, "no output line for this observation".to_string(), json!(expected_line), json!({"end": out.end.to_json()}))));
            }
            Some(ls) if ls.len() == 1 && ls[0] == expected_line => {}
            Some(ls) => {
                let l = ls[0];
                let rest = l.strip_prefix(pre.as_str()).unwrap_or(l);
                let is_last_line = seen.keys().next_back() == Some(&spec.marker);
                let kind = if ls.len() > 1 {
                    "line-repeated".to_string()
                } else if is_last_line && out.end != End::Ok {
                    // the PRINT statement was cut short by the end of the run
                    missing_reported = true;
                    match &out.end {
                        End::Err { code, name, .. } => format!("unexpected-error-{}", err_code_name(code, name)),
                        End::Panic(p) => format!("panic:{}", p.sig()),
                        _ => "wrong-value".to_string(),
                    }
                } else if prog.mode == Mode::Handler && rest.starts_with("E ") && rest.trim_start_matches("E ").trim().parse::<i64>().is_ok() {
                    let c = rest.trim_start_matches("E ").trim().to_string();
                    if spec.exp.is_some() { format!("unexpected-error-{}", c) } else { format!("wrong-error-{}", c) }
                } else if spec.exp.is_none() {
                    "no-error".to_string()
                } else if spec.alt.as_ref().map(|(_, a)| a == l).unwrap_or(false) {
                    spec.alt.as_ref().unwrap().0.clone()
                } else {
                    "wrong-value".to_string()
                };
                co.viols.push((Some(i), mk_viol(prog, Some(spec), &kind, "output differs from the defining equation".to_string(), json!(expected_line), json!(ls))));
            }
        }
    }
    if !stray.is_empty() && prog.mode == Mode::Plain {
        co.viols.push((None, mk_viol(prog, None, "stray-output", "output lines without marker".to_string(), json!([]), json!(stray))));
    } else if prog.mode == Mode::Handler && !stray.is_empty() {
        // a handler line that did not follow its marker
        co.viols.push((None, mk_viol(prog, None, "stray-handler-output", "handler output not attached to an observation".to_string(), json!([]), json!(stray))));
    }
    if out.end != End::Ok && !missing_reported {
        co.viols.push((None, mk_viol(prog, None, &format!("program-end:{}", out.end.short()), "program did not end normally".to_string(), json!("ok"), out.end.to_json())));
    }
    co
}

// ------------------------------------------------------------------------------------------------
// cases: one function application with concrete argument values
// ------------------------------------------------------------------------------------------------

#[derive(Clone, Copy, PartialEq, Eq, Debug)]
enum F {
    Left,
    Right,
    Mid2,
    Mid3,
    Instr2,
    Instr3,
    Len,
    LawLeftMid,
    LawLenCat,
    UCase,
    LCase,
    LTrim,
    RTrim,
    LRTrim,
    LTrimEnc,
    RTrimEnc,
    Space,
    StringCode,
    StringStr,
    LawSpaceString,
}

#[derive(Clone, Debug)]
struct Case {
    f: F,
    s: Vec<u8>,
    t: Vec<u8>,
    n: i64,
    m: i64,
}

impl Case {
    fn new(f: F, s: &[u8], t: &[u8], n: i64, m: i64) -> Case {
        Case { f, s: s.to_vec(), t: t.to_vec(), n, m }
    }
    /// Some(reason) when the statement does not determine the result.
    fn undetermined(&self) -> Option<&'static str> {
        match self.f {
            F::Instr2 | F::Instr3 if self.t.is_empty() => Some("INSTR with empty needle (statement covers non-empty t only)"),
            F::StringStr if self.t.is_empty() => Some("STRING$(n, \"\") (statement silent)"),
            F::LTrim | F::RTrim | F::LRTrim if self.s.iter().any(|b| *b == 10 || *b == 13) => Some("raw print of CR/LF (use encoded form)"),
            _ => None,
        }
    }
    /// Must the call raise Illegal function call?
    fn is_err(&self) -> bool {
        match self.f {
            F::Left | F::Right | F::Space | F::StringCode | F::StringStr | F::LawLeftMid | F::LawSpaceString => self.n < 0,
            F::Mid2 | F::Instr3 => self.n <= 0,
            F::Mid3 => self.n <= 0 || self.m < 0,
            _ => false,
        }
    }
}

fn rel(n: i64, len: usize) -> &'static str {
    let len = len as i64;
    if n < 0 {
        "n<0(err)"
    } else if n == 0 {
        "n=0"
    } else if n < len {
        "0<n<len"
    } else if n == len {
        "n=len"
    } else {
        "n>len"
    }
}

fn make_obs(c: &Case, form: Form, rot: u64, litonly: bool) -> Obs {
    let mut a = Args::new(form, rot, litonly);
    let form = a.form;
    let len = c.s.len();
    let sv = |o: Option<Vec<u8>>| o.map(|b| vec![Val::S(b)]);
    let (func, class, items, exp, alt): (&'static str, String, Vec<(String, bool)>, Option<Vec<Val>>, Option<(&'static str, Vec<Val>)>) = match c.f {
        F::Left => {
            let (s, n) = (a.s(&c.s), a.n(c.n));
            ("left", rel(c.n, len).to_string(), vec![(format!("LEFT$({}, {})", s, n), true)], sv(r_left(&c.s, c.n)), None)
        }
        F::Right => {
            let (s, n) = (a.s(&c.s), a.n(c.n));
            ("right", rel(c.n, len).to_string(), vec![(format!("RIGHT$({}, {})", s, n), true)], sv(r_right(&c.s, c.n)), None)
        }
        F::Mid2 => {
            let (s, n) = (a.s(&c.s), a.n(c.n));
            let l = len as i64;
            let class = if c.n <= 0 {
                "start<=0(err)"
            } else if c.n == 1 {
                "start=1"
            } else if c.n <= l {
                "1<start<=len"
            } else if c.n == l + 1 {
                "start=len+1"
            } else {
                "start>len+1"
            };
            ("mid2", class.to_string(), vec![(format!("MID$({}, {})", s, n), true)], sv(r_mid2(&c.s, c.n)), None)
        }
        F::Mid3 => {
            let (s, n, m) = (a.s(&c.s), a.n(c.n), a.n(c.m));
            let l = len as i64;
            let class = if c.n <= 0 && c.m < 0 {
                "start<=0,count<0(err)"
            } else if c.n <= 0 {
                "start<=0(err)"
            } else if c.m < 0 {
                "count<0(err)"
            } else if c.n > l {
                "start>len"
            } else if c.m == 0 {
                "count=0"
            } else if c.n - 1 + c.m < l {
                "inside"
            } else if c.n - 1 + c.m == l {
                "to-end-exactly"
            } else {
                "count-clamped"
            };
            ("mid3", class.to_string(), vec![(format!("MID$({}, {}, {})", s, n, m), true)], sv(r_mid3(&c.s, c.n, c.m)), None)
        }
        F::Instr2 | F::Instr3 => {
            let three = c.f == F::Instr3;
            let start = if three { c.n } else { 1 };
            let r = r_instr(start, &c.s, &c.t);
            let first = r_instr(1, &c.s, &c.t).unwrap_or(0);
            let class = match r {
                None => "start<=0(err)",
                Some(0) => {
                    if start > len as i64 {
                        "start>len"
                    } else if first > 0 {
                        "absent-from-start-but-occurs-earlier"
                    } else {
                        "absent"
                    }
                }
                Some(p) => {
                    if p == start {
                        "found-at-start"
                    } else if first < start {
                        "found-later-skipping-earlier-occurrence"
                    } else {
                        "found-later"
                    }
                }
            };
            let expr = if three {
                let (n, s, t) = (a.n(c.n), a.s(&c.s), a.s(&c.t));
                format!("INSTR({}, {}, {})", n, s, t)
            } else {
                let (s, t) = (a.s(&c.s), a.s(&c.t));
                format!("INSTR({}, {})", s, t)
            };
            (if three { "instr3" } else { "instr2" }, class.to_string(), vec![(expr, false)], r.map(|p| vec![Val::N(p)]), None)
        }
        F::Len => {
            let s = a.s(&c.s);
            ("len", if len == 0 { "empty" } else { "non-empty" }.to_string(), vec![(format!("LEN({})", s), false)], Some(vec![Val::N(len as i64)]), None)
        }
        F::LawLeftMid => {
            let (s, n) = (a.s(&c.s), a.n(c.n));
            let e = format!("LEFT$({}, {}) + MID$({}, {} + 1)", s, n, s, n);
            let exp = if c.n < 0 { None } else { Some(vec![Val::S(c.s.clone()), Val::N(-1)]) };
            ("law-left-mid", rel(c.n, len).to_string(), vec![(e.clone(), true), (format!("(({}) = {})", e, s), false)], exp, None)
        }
        F::LawLenCat => {
            let (x, y) = (a.s(&c.s), a.s(&c.t));
            let class = match (c.s.is_empty(), c.t.is_empty()) {
                (true, true) => "both-empty",
                (true, false) | (false, true) => "one-empty",
                _ => "both-non-empty",
            };
            (
                "law-len-concat",
                class.to_string(),
                vec![(format!("LEN({} + {})", x, y), false), (format!("(LEN({} + {}) = (LEN({}) + LEN({})))", x, y, x, y), false)],
                Some(vec![Val::N((c.s.len() + c.t.len()) as i64), Val::N(-1)]),
                None,
            )
        }
        F::UCase | F::LCase => {
            let s = a.s(&c.s);
            let up = c.f == F::UCase;
            let r = if up { r_ucase(&c.s) } else { r_lcase(&c.s) };
            let has_letter = c.s.iter().any(|b| b.is_ascii_alphabetic());
            let has_other = c.s.iter().any(|b| !b.is_ascii_alphabetic());
            let class = match (has_letter, has_other) {
                (true, true) => "letters+non-letters",
                (true, false) => "letters-only",
                (false, true) => "non-letters-only",
                _ => "empty",
            };
            (if up { "ucase" } else { "lcase" }, class.to_string(), vec![(format!("{}({})", if up { "UCASE$" } else { "LCASE$" }, s), true)], Some(vec![Val::S(r)]), None)
        }
        F::LTrim | F::RTrim | F::LRTrim => {
            let s = a.s(&c.s);
            let (func, e, r, al, altname): (&'static str, String, Vec<u8>, Vec<u8>, &'static str) = match c.f {
                F::LTrim => ("ltrim", format!("LTRIM$({})", s), r_ltrim(&c.s), alt_ltrim(&c.s), "strips-non-blank"),
                F::RTrim => ("rtrim", format!("RTRIM$({})", s), r_rtrim(&c.s), alt_rtrim(&c.s), "strips-non-blank"),
                _ => ("ltrim-rtrim", format!("LTRIM$(RTRIM$({}))", s), r_ltrim(&r_rtrim(&c.s)), alt_ltrim(&alt_rtrim(&c.s)), "strips-non-blank"),
            };
            let class = trim_class(&c.s, c.f != F::RTrim, c.f != F::LTrim);
            let alt = if al != r { Some((altname, vec![Val::S(al)])) } else { None };
            (func, class, vec![(e, true)], Some(vec![Val::S(r)]), alt)
        }
        F::LTrimEnc | F::RTrimEnc => {
            let s = a.s(&c.s);
            let left = c.f == F::LTrimEnc;
            let (r, al) = if left { (r_ltrim(&c.s), alt_ltrim(&c.s)) } else { (r_rtrim(&c.s), alt_rtrim(&c.s)) };
            let call = format!("{}({})", if left { "LTRIM$" } else { "RTRIM$" }, s);
            let class = format!("encoded:{}", trim_class(&c.s, left, !left));
            let alt = if al != r { Some(("strips-non-blank", vec![Val::N(al.len() as i64), Val::N(0)])) } else { None };
            (
                if left { "ltrim" } else { "rtrim" },
                class,
                vec![(format!("LEN({})", call), false), (format!("({} = {})", call, lit(&r)), false)],
                Some(vec![Val::N(r.len() as i64), Val::N(-1)]),
                alt,
            )
        }
        F::Space => {
            let n = a.n(c.n);
            let exp = if c.n < 0 { None } else { Some(vec![Val::S(vec![32; c.n as usize])]) };
            ("space", if c.n < 0 { "n<0(err)" } else if c.n == 0 { "n=0" } else { "n>0" }.to_string(), vec![(format!("SPACE$({})", n), true)], exp, None)
        }
        F::StringCode => {
            let (n, m) = (a.n(c.n), a.n(c.m));
            let exp = if c.n < 0 { None } else { Some(vec![Val::S(vec![c.m as u8; c.n as usize])]) };
            let class = format!("{}{}", if c.n < 0 { "n<0(err)" } else if c.n == 0 { "n=0" } else { "n>0" }, if c.m == 32 { ",code=32" } else { ",other-code" });
            ("string-code", class, vec![(format!("STRING$({}, {})", n, m), true)], exp, None)
        }
        F::StringStr => {
            let (n, t) = (a.n(c.n), a.s(&c.t));
            let exp = if c.n < 0 { None } else { Some(vec![Val::S(vec![c.t[0]; c.n as usize])]) };
            let class = format!("{}{}", if c.n < 0 { "n<0(err)" } else if c.n == 0 { "n=0" } else { "n>0" }, if c.t.len() == 1 { ",one-char" } else { ",longer-string" });
            ("string-str", class, vec![(format!("STRING$({}, {})", n, t), true)], exp, None)
        }
        F::LawSpaceString => {
            let n = a.n(c.n);
            let exp = if c.n < 0 { None } else { Some(vec![Val::N(-1), Val::N(c.n), Val::N(c.n)]) };
            (
                "law-space-string",
                if c.n == 0 { "n=0" } else { "n>0" }.to_string(),
                vec![(format!("(SPACE$({}) = STRING$({}, 32))", n, n), false), (format!("LEN(SPACE$({}))", n), false), (format!("LEN(STRING$({}, 32))", n), false)],
                exp,
                None,
            )
        }
    };
    Obs { func, class: format!("{}:{}", func, class), form, setup: a.setup, items, exp, alt, inner: a.inner }
}

/// Strings holding a character >= 128 (one character each, e.g. CHR$(200)): results are compared
/// inside BASIC (LEN of the result and equality with the expected string built from CHR$), so the
/// byte encoding of the output device plays no role. kind: 0 LEFT$, 1 RIGHT$, 2 MID$/2, 3 MID$/3, 4 INSTR/3.
fn make_hichar_obs(kind: usize, s: &[u8], t: &[u8], n: i64, m: i64, form: Form) -> Obs {
    let mut a = Args::new(if form == Form::Nest { Form::Lit } else { form }, 0, false);
    let form = a.form;
    let (func, call, exp): (&'static str, String, Val) = match kind {
        0 => ("left-hichar", format!("LEFT$({}, {})", a.s(s), a.n(n)), Val::S(r_left(s, n).unwrap())),
        1 => ("right-hichar", format!("RIGHT$({}, {})", a.s(s), a.n(n)), Val::S(r_right(s, n).unwrap())),
        2 => ("mid2-hichar", format!("MID$({}, {})", a.s(s), a.n(n)), Val::S(r_mid2(s, n).unwrap())),
        3 => ("mid3-hichar", format!("MID$({}, {}, {})", a.s(s), a.n(n), a.n(m)), Val::S(r_mid3(s, n, m).unwrap())),
        _ => {
            let (nn, ss, tt) = (a.n(n), a.s(s), a.s(t));
            ("instr-hichar", format!("INSTR({}, {}, {})", nn, ss, tt), Val::N(r_instr(n, s, t).unwrap()))
        }
    };
    let (items, exp) = match exp {
        Val::S(r) => (vec![(format!("LEN({})", call), false), (format!("({} = {})", call, lit(&r)), false)], vec![Val::N(r.len() as i64), Val::N(-1)]),
        Val::N(p) => (vec![(call, false)], vec![Val::N(p)]),
    };
    let hi_first = s.first().map(|b| *b >= 128).unwrap_or(false);
    Obs { func, class: format!("{}:{}", func, if hi_first { "starts-with-char>=128" } else { "char>=128-inside" }), form, setup: a.setup, items, exp: Some(exp), alt: None, inner: vec![] }
}

fn trim_class(s: &[u8], left: bool, right: bool) -> String {
    let lead_b = s.first() == Some(&32);
    let trail_b = s.last() == Some(&32);
    let lead_ws = s.first().map(|b| is_ws(*b) && *b != 32).unwrap_or(false);
    let trail_ws = s.last().map(|b| is_ws(*b) && *b != 32).unwrap_or(false);
    let ctl_behind_blank = (left && alt_ltrim(s) != r_ltrim(s)) || (right && alt_rtrim(s) != r_rtrim(s));
    let mut v = vec![];
    if left && lead_b {
        v.push("leading-blank");
    }
    if right && trail_b {
        v.push("trailing-blank");
    }
    if (left && lead_ws) || (right && trail_ws) {
        v.push("control-char-at-edge");
    } else if ctl_behind_blank {
        v.push("control-char-behind-blanks");
    }
    if v.is_empty() { "nothing-to-trim".to_string() } else { v.join("+") }
}

/// VAL(STR$(k)) = k. `vform`: 0 literal, 1 k%, 2 k&, 3 k!, 4 k#.
fn make_val_obs(k: i64, vform: u32) -> Obs {
    let (setup, kx, form) = match vform {
        0 => (String::new(), k.to_string(), Form::Lit),
        1 => (format!("k% = {}: ", k), "k%".to_string(), Form::Var),
        2 => (format!("k& = {}: ", k), "k&".to_string(), Form::Var),
        3 => (format!("k! = {}: ", k), "k!".to_string(), Form::Var),
        _ => (format!("k# = {}: ", k), "k#".to_string(), Form::Var),
    };
    let range = if (-32768..=32767).contains(&k) {
        "integer"
    } else if (-2147483648..=2147483647).contains(&k) {
        "long"
    } else {
        "beyond-long"
    };
    let sign = if k < 0 { "negative" } else if k == 0 { "zero" } else { "positive" };
    let call = format!("VAL(STR$({}))", kx);
    let flag = (format!("({} = {})", call, kx), false);
    // the printed number is compared only where k is INTEGER/LONG typed (PRINT formatting of floats is not this property)
    let print_value = vform <= 2 && range != "beyond-long";
    let (items, exp) = if print_value { (vec![(call, false), flag], vec![Val::N(k), Val::N(-1)]) } else { (vec![flag], vec![Val::N(-1)]) };
    Obs {
        func: "val-str",
        class: format!("val-str:{},{},{}", range, sign, ["literal", "integer-var", "long-var", "single-var", "double-var"][vform.min(4) as usize]),
        form,
        setup,
        items,
        exp: Some(exp),
        alt: None,
        inner: vec![],
    }
}

// ------------------------------------------------------------------------------------------------
// running batches
// ------------------------------------------------------------------------------------------------

thread_local! {
    /// Failure handling only (never consulted while a property holds): how many failing observations
    /// this worker has already reduced to a one-observation program.
    static MINIMISED: std::cell::Cell<u64> = const { std::cell::Cell::new(0) };
}
const MAX_MINIMISED: u64 = 24;

fn give_up() -> bool {
    MINIMISED.with(|m| m.get() > MAX_MINIMISED)
}

/// Runs one batch, records statistics, returns the violations (each reduced to a one-observation
/// program when it still fails alone).
fn run_batch(sh: &mut Shard, mode: Mode, obs: &[Obs]) -> Vec<Violation> {
    if obs.is_empty() {
        return vec![];
    }
    let marked: Vec<(u64, &Obs)> = obs.iter().enumerate().map(|(i, o)| (i as u64, o)).collect();
    let prog = render(mode, &marked);
    sh.journal(&prog.src);
    for o in obs {
        sh.eval();
        sh.nontrivial(o.fingerprint());
        sh.class(&o.class);
        sh.class(&format!("form:{}", o.form.name()));
    }
    sh.class_n(&format!("mode:{}:observations", mode.name()), obs.len() as u64);
    sh.class(&format!("mode:{}:programs", mode.name()));
    sh.sample_sparse(7, || {
        let head: String = prog.src.lines().take(8).collect::<Vec<_>>().join("\n");
        json!({"mode": mode.name(), "observations": obs.len(), "program_head": head})
    });
    let co = check_prog(&prog);
    if let Some(r) = &co.inconclusive {
        sh.discard(r);
    }
    for _ in 0..co.lost {
        sh.discard("observation lost behind an earlier failure in the same program");
    }
    let mut out = vec![];
    for (idx, v) in co.viols {
        let known = sh.known.open_match(&v.sig).is_some();
        match idx {
            Some(_) if !known && give_up() => {
                sh.discard("failing observation not reduced/reported: this worker already reduced 24 failures and stops");
            }
            Some(i) if !known => {
                MINIMISED.with(|m| m.set(m.get() + 1));
                let v = if obs.len() > 1 {
                    let solo = render(mode, &[(i as u64, &obs[i])]);
                    sh.journal(&solo.src);
                    match check_prog(&solo).viols.into_iter().next() {
                        Some((_, v2)) => v2,
                        None => {
                            let mut v = v;
                            v.sig = format!("{}:only-in-batch", v.sig);
                            out.push(v);
                            continue;
                        }
                    }
                } else {
                    v
                };
                out.push(blame_inner(sh, &obs[i]).unwrap_or(v));
            }
            _ => out.push(v),
        }
    }
    out
}

/// If one of the inner calls of a failing nested-call observation is wrong by itself, that is the
/// violation to report (one root cause, one signature).
fn blame_inner(sh: &mut Shard, o: &Obs) -> Option<Violation> {
    if o.inner.is_empty() {
        return None;
    }
    let inner: Vec<Obs> = o
        .inner
        .iter()
        .map(|(func, e, v)| Obs {
            func,
            class: String::new(),
            form: Form::Nest,
            setup: String::new(),
            items: vec![(e.clone(), matches!(v, Val::S(_)))],
            exp: Some(vec![v.clone()]),
            alt: None,
            inner: vec![],
        })
        .collect();
    for (k, io) in inner.iter().enumerate() {
        let p = render(Mode::Plain, &[(k as u64, io)]);
        sh.journal(&p.src);
        if let Some((_, v)) = check_prog(&p).viols.into_iter().next() {
            return Some(v);
        }
    }
    None
}

struct Stream {
    mode: Mode,
    chunk: u64,
    count: u64,
    offset: u64,
    buf: Vec<Obs>,
}

impl Stream {
    fn new(mode: Mode, chunk: u64, offset: u64) -> Stream {
        Stream { mode, chunk, count: 0, offset, buf: vec![] }
    }
    fn wants(&self, sh: &Shard) -> bool {
        sh.mine(self.count / self.chunk + self.offset)
    }
    /// Adds the observation produced by `f` if the current chunk belongs to this shard.
    fn add(&mut self, sh: &mut Shard, f: impl FnOnce() -> Obs) -> bool {
        if self.wants(sh) {
            self.buf.push(f());
        }
        self.count += 1;
        if self.count % self.chunk == 0 { self.flush(sh) } else { true }
    }
    fn flush(&mut self, sh: &mut Shard) -> bool {
        if self.buf.is_empty() {
            return true;
        }
        let obs = std::mem::take(&mut self.buf);
        let mut go = true;
        for v in run_batch(sh, self.mode, &obs) {
            go = sh.report(Err(v)) && go;
            if sh.stats.violations.len() == 1 && !sh.stats.notes.contains_key("first_violation") {
                let at = sh.stats.evaluations;
                let sig = sh.stats.violations[0].sig.clone();
                sh.note("first_violation", json!(format!("shard {} of {}: sig {} after {} observations of this shard", sh.shard, sh.nshards, sig, at)));
            }
        }
        go && !give_up()
    }
}

struct Router {
    plain: Stream,
    handler: Stream,
    last: Stream,
    idx: u64,
    errs: u64,
    ok_case: Case,
}

impl Router {
    fn new() -> Router {
        Router {
            plain: Stream::new(Mode::Plain, 180, 0),
            handler: Stream::new(Mode::Handler, 150, 5),
            last: Stream::new(Mode::Last, 1, 11),
            idx: 0,
            errs: 0,
            ok_case: Case::new(F::Left, b"aB a", b"", 2, 0),
        }
    }
    /// Routes one case in all three argument forms.
    fn emit(&mut self, sh: &mut Shard, c: Case) -> bool {
        self.idx += 1;
        let rot = self.idx;
        if let Some(r) = c.undetermined() {
            if sh.mine(rot) {
                sh.discard(r);
            }
            return true;
        }
        let mut go = true;
        if c.is_err() {
            for (fi, form) in FORMS.iter().enumerate() {
                let r = rot * 3 + fi as u64;
                match form {
                    Form::Var => {
                        go = self.last.add(sh, || make_obs(&c, Form::Var, r, false)) && go;
                    }
                    _ => {
                        go = self.handler.add(sh, || make_obs(&c, *form, r, true)) && go;
                        self.errs += 1;
                        if self.errs % 4 == 0 {
                            // control: a call that must succeed, in between handled errors
                            let k = self.ok_case.clone();
                            go = self.handler.add(sh, || make_obs(&k, *form, r ^ 0x55, true)) && go;
                        }
                        if self.errs % 8 == 0 {
                            go = self.last.add(sh, || make_obs(&c, *form, r, false)) && go;
                        }
                    }
                }
            }
        } else {
            for (fi, form) in FORMS.iter().enumerate() {
                let r = rot * 3 + fi as u64;
                go = self.plain.add(sh, || make_obs(&c, *form, r, false)) && go;
            }
            if self.idx % 7 == 0 {
                self.ok_case = c;
            }
        }
        go
    }
    fn emit_val(&mut self, sh: &mut Shard, k: i64, vform: u32) -> bool {
        self.plain.add(sh, || make_val_obs(k, vform))
    }
    fn finish(&mut self, sh: &mut Shard) -> bool {
        let a = self.plain.flush(sh);
        let b = self.handler.flush(sh);
        let c = self.last.flush(sh);
        a && b && c
    }
}

/// All strings over `alpha` of length <= maxlen, shortest first.
fn small_strings(alpha: &[u8], maxlen: usize) -> Vec<Vec<u8>> {
    let mut all: Vec<Vec<u8>> = vec![vec![]];
    let mut prev: Vec<Vec<u8>> = vec![vec![]];
    for _ in 0..maxlen {
        let mut next = vec![];
        for p in &prev {
            for a in alpha {
                let mut q = p.clone();
                q.push(*a);
                next.push(q);
            }
        }
        all.extend(next.iter().cloned());
        prev = next;
    }
    all
}

fn long_samples() -> Vec<i64> {
    let mut v: Vec<i64> = vec![0, 1, -1, 32767, 32768, -32768, -32769, 65535, 65536, -65535, -65536, 2147483647, -2147483647, -2147483648, 99999, 100000, -100000, 123456789, -123456789, 1000000000, -1000000000, 16777215, 16777216, 16777217, -16777216];
    for b in 15..31 {
        let p = 1i64 << b;
        v.extend_from_slice(&[p, p - 1, p + 1, -p, -p - 1, -p + 1]);
    }
    let mut p = 10i64;
    while p < 2147483647 {
        v.extend_from_slice(&[p, p - 1, -p, -p + 1]);
        p *= 10;
    }
    v.sort();
    v.dedup();
    v
}

/// The enumerated part (complete in both tiers).
fn enumerate(sh: &mut Shard) -> bool {
    let mut r = Router::new();
    let strs = small_strings(b"aB ", 5);
    let short = small_strings(b"aB ", 2);
    let needles: Vec<Vec<u8>> = short[1..].to_vec();
    for s in &strs {
        let mut go = r.emit(sh, Case::new(F::Len, s, b"", 0, 0));
        for n in -1..=7 {
            go = r.emit(sh, Case::new(F::Left, s, b"", n, 0)) && go;
            go = r.emit(sh, Case::new(F::Right, s, b"", n, 0)) && go;
            go = r.emit(sh, Case::new(F::Mid2, s, b"", n, 0)) && go;
            go = r.emit(sh, Case::new(F::LawLeftMid, s, b"", n, 0)) && go;
            for m in -1..=7 {
                go = r.emit(sh, Case::new(F::Mid3, s, b"", n, m)) && go;
            }
        }
        for t in &needles {
            go = r.emit(sh, Case::new(F::Instr2, s, t, 0, 0)) && go;
            for n in -1..=7 {
                go = r.emit(sh, Case::new(F::Instr3, s, t, n, 0)) && go;
            }
        }
        go = r.emit(sh, Case::new(F::Instr2, s, b"", 0, 0)) && go; // undetermined: counted as discard
        for b in &short {
            go = r.emit(sh, Case::new(F::LawLenCat, s, b, 0, 0)) && go;
            go = r.emit(sh, Case::new(F::LawLenCat, b, s, 0, 0)) && go;
        }
        for f in [F::UCase, F::LCase, F::LTrim, F::RTrim, F::LRTrim] {
            go = r.emit(sh, Case::new(f, s, b"", 0, 0)) && go;
        }
        if !go {
            return false;
        }
    }
    sh.exhaustive("all 364 strings over {a,B,blank} of length <= 5 x all n,m in -1..7: LEFT$, RIGHT$, MID$ (2,3 args), INSTR (2,3 args; all 12 needles of length 1..2), LEN, LEFT$+MID$ law, LEN(a+b) law with all b of length <= 2 on either side, UCASE$, LCASE$, LTRIM$, RTRIM$ — each as literal, variable and nested call");
    // trim alphabets
    for s in small_strings(b"a \t", 5) {
        if !s.contains(&9) {
            continue; // already covered above (no TAB)
        }
        let go = r.emit(sh, Case::new(F::LTrim, &s, b"", 0, 0)) && r.emit(sh, Case::new(F::RTrim, &s, b"", 0, 0));
        if !go {
            return false;
        }
    }
    for s in small_strings(b"a \t\n\r", 4).into_iter().chain(small_strings(&[b'a', b' ', 11, 12], 3)) {
        let go = r.emit(sh, Case::new(F::LTrimEnc, &s, b"", 0, 0)) && r.emit(sh, Case::new(F::RTrimEnc, &s, b"", 0, 0));
        if !go {
            return false;
        }
    }
    sh.exhaustive("LTRIM$/RTRIM$ over all strings of {a,blank,TAB} up to length 5 (printed) and {a,blank,TAB,LF,CR} up to length 4, {a,blank,VT,FF} up to length 3 (LEN + comparison inside BASIC)");
    // UCASE$/LCASE$ over all printable ASCII
    let printable: Vec<u8> = (32u8..=126).collect();
    let mut cases: Vec<Vec<u8>> = vec![printable.clone(), printable.iter().rev().cloned().collect()];
    for c in &printable {
        cases.push(vec![*c]);
        cases.push(vec![*c, b'a', *c, b'Z', *c]);
        cases.push(vec![b'q', *c, b' ', *c, b'M']);
    }
    for s in &cases {
        let go = r.emit(sh, Case::new(F::UCase, s, b"", 0, 0)) && r.emit(sh, Case::new(F::LCase, s, b"", 0, 0));
        if !go {
            return false;
        }
    }
    // string literals with long runs of letters (each its own program: the pinned parser rejects > 40)
    let mut probe = Stream::new(Mode::Plain, 1, 3);
    for l in [39usize, 40, 41, 47, 60] {
        let body = "a".repeat(l);
        for (k, e) in [format!("LEN(\"{}\")", body), format!("LEN(\"x {} y\")", body)].into_iter().enumerate() {
            let o = Obs {
                func: "len",
                class: format!("len:unsplit-literal-with-{}-letter-run", if l > 40 { ">40" } else { "<=40" }),
                form: Form::Lit,
                setup: String::new(),
                items: vec![(e, false)],
                exp: Some(vec![Val::N((l + 4 * k) as i64)]),
                alt: None,
                inner: vec![],
            };
            if !probe.add(sh, || o) {
                return false;
            }
        }
    }
    sh.exhaustive("UCASE$/LCASE$ of every printable ASCII character alone, between letters, and of the whole printable range");
    // strings with a character >= 128: one character each, so prefix/suffix/substring/position count
    // characters. One observation per program: INSTR panics on such strings on the pinned tree.
    let mut hi = Stream::new(Mode::Plain, 1, 7);
    for s in small_strings(&[b'x', 200], 3) {
        if !s.contains(&200) {
            continue;
        }
        for form in [Form::Lit, Form::Var] {
            for n in 0..=4i64 {
                let mut go = hi.add(sh, || make_hichar_obs(0, &s, b"", n, 0, form));
                go = hi.add(sh, || make_hichar_obs(1, &s, b"", n, 0, form)) && go;
                if n >= 1 {
                    go = hi.add(sh, || make_hichar_obs(2, &s, b"", n, 0, form)) && go;
                    for m in 0..=3i64 {
                        go = hi.add(sh, || make_hichar_obs(3, &s, b"", n, m, form)) && go;
                    }
                    for t in [&b"x"[..], &[200u8][..], &[b'x', 200][..]] {
                        go = hi.add(sh, || make_hichar_obs(4, &s, t, n, 0, form)) && go;
                    }
                }
                if !go {
                    return false;
                }
            }
        }
    }
    sh.exhaustive("LEFT$/RIGHT$/MID$/INSTR over all strings of {x, CHR$(200)} up to length 3 that hold CHR$(200), n in 0..4, m in 0..3 (compared inside BASIC)");
    // SPACE$ / STRING$
    for n in -1..=40 {
        let mut go = r.emit(sh, Case::new(F::Space, b"", b"", n, 0));
        for code in [32, 33, 65, 97, 126] {
            go = r.emit(sh, Case::new(F::StringCode, b"", b"", n, code)) && go;
        }
        for t in [&b"a"[..], b"Ba", b" x", b"*", b"~~~", b""] {
            go = r.emit(sh, Case::new(F::StringStr, b"", t, n, 0)) && go;
        }
        if n >= 0 {
            go = r.emit(sh, Case::new(F::LawSpaceString, b"", b"", n, 0)) && go;
        }
        if !go {
            return false;
        }
    }
    sh.exhaustive("SPACE$(n), STRING$(n,code), STRING$(n,s$), SPACE$(n)=STRING$(n,32) for all n in -1..40");
    // VAL(STR$(k)) for all INTEGER k
    for k in -32768i64..=32767 {
        let mut go = r.emit_val(sh, k, 0);
        go = r.emit_val(sh, k, 1) && go;
        go = r.emit_val(sh, k, 2 + (k.rem_euclid(3)) as u32) && go;
        if !go {
            return false;
        }
    }
    sh.exhaustive("VAL(STR$(k)) = k for all 65536 INTEGER k (as literal and as INTEGER variable; LONG/SINGLE/DOUBLE variable in rotation)");
    for k in long_samples() {
        let mut go = r.emit_val(sh, k, 0);
        go = r.emit_val(sh, k, 2) && go;
        go = r.emit_val(sh, k, 4) && go;
        if k.abs() <= 16777216 {
            go = r.emit_val(sh, k, 3) && go;
        }
        if !go {
            return false;
        }
    }
    for k in [2147483648i64, 2147483649, 3000000000, 4294967295, 4294967294, 4000000001] {
        if !(r.emit_val(sh, k, 0) && r.emit_val(sh, k, 4)) {
            return false;
        }
    }
    r.finish(sh)
}

// ------------------------------------------------------------------------------------------------
// random tier
// ------------------------------------------------------------------------------------------------

const OBS_PER_RANDOM_PROGRAM: usize = 120;
const TAPE_LEN: usize = 3200;

fn alphabet(kind: usize) -> Vec<u8> {
    match kind {
        0 => b"aB ".to_vec(),
        1 => b"ab".to_vec(),
        2 => b"a bcXYZ019".to_vec(),
        _ => {
            let mut v = vec![b'a'];
            v.extend((32u8..=126).filter(|c| *c != b'a'));
            v
        }
    }
}

fn rand_string(t: &mut Tape, alpha: &[u8], maxlen: usize) -> Vec<u8> {
    let len = if t.chance(1, 2) { t.choose(maxlen + 1) } else { t.choose(9.min(maxlen + 1)) };
    let mut v = Vec::with_capacity(len);
    let mut cell = 0u32;
    for i in 0..len {
        if i % 4 == 0 {
            cell = t.raw();
        }
        let b = (cell >> (8 * (i % 4))) & 0xff;
        v.push(alpha[b as usize % alpha.len()]);
    }
    v
}

fn rand_n(t: &mut Tape, len: usize) -> i64 {
    let l = len as i64;
    match t.choose(12) {
        0 => 1,
        1 => 0,
        2 => *t.pick(&[-1i64, -2, -100, -32768]),
        3 => l - 1,
        4 => l,
        5 => l + 1,
        6 => l + 2,
        7 => 2,
        8 => *t.pick(&[100i64, 255, 256, 32767]),
        _ => t.range(0, l + 3),
    }
}

enum Gen {
    C(Case),
    V(i64, u32),
}

fn rand_gen(t: &mut Tape) -> Gen {
    let kind = t.choose(14);
    let alpha = alphabet(t.choose(5));
    match kind {
        0 | 1 | 2 | 7 => {
            let s = rand_string(t, &alpha, 60);
            let n = rand_n(t, s.len());
            let f = [F::Left, F::Right, F::Mid2, F::LawLeftMid][match kind {
                7 => 3,
                k => k,
            }];
            // the law evaluates MID$(s, n + 1): keep n + 1 inside the INTEGER range
            let n = if f == F::LawLeftMid { n.min(32766) } else { n };
            Gen::C(Case::new(f, &s, b"", n, 0))
        }
        3 => {
            let s = rand_string(t, &alpha, 60);
            let n = rand_n(t, s.len());
            let rest = (s.len() as i64 - n + 1).max(0) as usize;
            let m = rand_n(t, rest);
            Gen::C(Case::new(F::Mid3, &s, b"", n, m))
        }
        4 | 5 => {
            let s = rand_string(t, &alpha, 60);
            let needle: Vec<u8> = if !s.is_empty() && t.chance(2, 3) {
                let st = t.choose(s.len());
                let l = 1 + t.choose(3.min(s.len() - st));
                s[st..st + l].to_vec()
            } else {
                rand_string(t, &alpha, 3)
            };
            let n = rand_n(t, s.len());
            Gen::C(Case::new(if kind == 4 { F::Instr2 } else { F::Instr3 }, &s, &needle, n, 0))
        }
        6 => Gen::C(Case::new(F::Len, &rand_string(t, &alpha, 60), b"", 0, 0)),
        8 => {
            let a = rand_string(t, &alpha, 40);
            let b = rand_string(t, &alpha, 40);
            Gen::C(Case::new(F::LawLenCat, &a, &b, 0, 0))
        }
        9 => {
            let s = rand_string(t, &alphabet(4), 60);
            Gen::C(Case::new(if t.chance(1, 2) { F::LCase } else { F::UCase }, &s, b"", 0, 0))
        }
        10 => {
            let trim_alpha: Vec<u8> = if t.chance(1, 3) { vec![b' ', b'a', 9, b'b', 10, 13, 11, 12] } else { vec![b' ', b'a', 9, b'b'] };
            let s = rand_string(t, &trim_alpha, 12);
            let left = !t.chance(1, 2);
            let enc = s.iter().any(|b| matches!(*b, 10..=13));
            let f = match (left, enc) {
                (true, false) => F::LTrim,
                (false, false) => F::RTrim,
                (true, true) => F::LTrimEnc,
                (false, true) => F::RTrimEnc,
            };
            Gen::C(Case::new(f, &s, b"", 0, 0))
        }
        11 => {
            let n = t.range(-1, 40);
            match t.choose(3) {
                0 => Gen::C(Case::new(F::Space, b"", b"", n, 0)),
                1 => Gen::C(Case::new(F::StringCode, b"", b"", n, t.range(32, 126))),
                _ => Gen::C(Case::new(F::StringStr, b"", &rand_string(t, &alpha, 4), n, 0)),
            }
        }
        12 => {
            let raw = t.raw();
            match t.choose(4) {
                0 => Gen::V(raw as i32 as i64, 2),
                1 => Gen::V(raw as i32 as i64, 0),
                2 => Gen::V(raw as i32 as i64, 4),
                _ => Gen::V(raw as i64, if raw & 1 == 0 { 0 } else { 4 }),
            }
        }
        _ => Gen::C(Case::new(F::LawSpaceString, b"", b"", t.range(0, 40), 0)),
    }
}

fn random_program_case(sh: &mut Shard, tape: &[u32]) -> Result<(), Violation> {
    // the cap on reductions is for the enumerated part; a random case must behave the same on re-run
    MINIMISED.with(|m| m.set(0));
    let mut t = Tape::new(tape);
    let mut plain: Vec<Obs> = vec![];
    let mut handled: Vec<Obs> = vec![];
    for _ in 0..OBS_PER_RANDOM_PROGRAM {
        let g = rand_gen(&mut t);
        let form = FORMS[t.choose(3)];
        let rot = t.raw() as u64;
        match g {
            Gen::V(k, vf) => plain.push(make_val_obs(k, vf)),
            Gen::C(c) => {
                if let Some(r) = c.undetermined() {
                    sh.discard(r);
                    continue;
                }
                if c.is_err() {
                    handled.push(make_obs(&c, form, rot, true));
                    if handled.len() % 3 == 0 {
                        // control between handled errors
                        let ok = Case::new(F::Mid3, &c.s, b"", 1, c.s.len() as i64);
                        handled.push(make_obs(&ok, form, rot ^ 0x33, true));
                    }
                } else {
                    plain.push(make_obs(&c, form, rot, false));
                }
            }
        }
    }
    for (mode, obs) in [(Mode::Plain, &plain), (Mode::Handler, &handled)] {
        for v in run_batch(sh, mode, obs) {
            sh.triage(v)?;
        }
    }
    Ok(())
}

// ------------------------------------------------------------------------------------------------

impl Prop for C17 {
    fn id(&self) -> &'static str {
        "C17"
    }
    fn rule(&self) -> &'static str {
        "One case = one observation = one generated PRINT line `K<i>[...]` applying LEFT$/RIGHT$/MID$(2,3)/INSTR(2,3)/LEN/UCASE$/LCASE$/LTRIM$/RTRIM$/SPACE$/STRING$/VAL(STR$()) or one of the laws (LEFT$+MID$, LEN(a+b), SPACE$=STRING$, VAL(STR$(k))=k evaluated inside BASIC) to concrete arguments given as literals, as variables or as nested calls; 120-180 observations per program, output compared line by line (by marker) with native reference functions written from the statement. Calls that must raise Illegal function call are observed (a) as the last statement of their own program (all of them in variable form, every 8th literal/nested one) and (b) batched under ON ERROR GOTO h / PRINT \"E\"; ERR / RESUME NEXT with literal arguments, with succeeding control calls in between. Enumerated part: see exhaustive_parts (identical in both tiers); random part: printable-ASCII strings up to 60 characters, arguments biased to the boundaries LEN-1, LEN, LEN+1, 0, -1. Every observation is non-trivial (it applies a function to a distinct argument tuple/form; fingerprint = hash of function, form and rendered expression); the classes show n relative to LEN(s), error cases and argument forms."
    }
    fn assumptions(&self) -> Vec<&'static str> {
        vec![
            "strings are restricted to ASCII 32..126 plus TAB/LF/CR/VT/FF for the trim functions (the statement quantifies over printable ASCII); of the characters >= 128 only CHR$(200) is used, in a small enumerated class, assuming CHR$(200) is a string of ONE character (LEN reports 1)",
            "INSTR with an empty needle, STRING$(n, \"\") and counts above 32767 are not pinned down by the statement: discarded/not generated",
            "MID$(s, n, 0) is the substring of zero characters (\"\"), MID$ with start > LEN(s) is \"\" (follows from LEFT$(s,n)+MID$(s,n+1)=s with clamped counts)",
            "STRING$(n, s$) repeats the first character of s$ (documented QBasic behaviour); UCASE$/LCASE$ map a..z <-> A..Z (documented) and leave every other character unchanged (statement)",
            "programs that continue after a handled error use literal arguments only, because of the known context leak after RESUME NEXT (module-level variables read 0); variables in failing calls are covered by the last-statement form",
            "the numeric value printed for VAL(STR$(k)) is compared only for INTEGER/LONG typed k; for SINGLE/DOUBLE typed whole k only the comparison VAL(STR$(k)) = k evaluated in BASIC is checked (exact: whole numbers below 2^53)",
        ]
    }
    fn run(&self, sh: &mut Shard) {
        if !enumerate(sh) {
            return;
        }
        if !sh.stats.violations.is_empty() {
            // fail fast: the enumerated part already found a violation
            return;
        }
        let cases = sh.share(sh.tier.pick(640, 100_000));
        // A failing program is reduced to the single failing observation by run_batch itself;
        // proptest's tape shrinking (4000 program runs) adds nothing, so after the first failure
        // every other tape is answered Ok without running anything and the engine re-runs the
        // original failing tape.
        let failed: std::cell::Cell<Option<u64>> = std::cell::Cell::new(None);
        sh.search(1, cases, TAPE_LEN, TAPE_LEN, |sh, tape| {
            let h = hash64(tape);
            if let Some(f) = failed.get() {
                if f != h {
                    return Ok(());
                }
            }
            let r = random_program_case(sh, tape);
            if r.is_err() {
                failed.set(Some(h));
            }
            r
        });
    }
    fn replay(&self, _sh: &mut Shard, inputs: &Value) -> Result<(), Violation> {
        match inputs["kind"].as_str().unwrap_or("") {
            "prog" => {
                let prog = Prog::from_json(inputs);
                let co = check_prog(&prog);
                // prefer the violation of the focused observation
                let focus = inputs["focus"]["marker"].as_u64();
                let mut first = None;
                for (idx, v) in co.viols {
                    if let (Some(i), Some(f)) = (idx, focus) {
                        if prog.lines[i].marker == f {
                            return Err(v);
                        }
                    }
                    if first.is_none() {
                        first = Some(v);
                    }
                }
                match first {
                    Some(v) => Err(v),
                    None => Ok(()),
                }
            }
            "show" => {
                let src = inputs["program"].as_str().unwrap_or("");
                match impl_run::run_src(src, &RunOpts::budget(BUDGET)) {
                    Ok(o) => println!("end: {}\nstdout:\n{}", o.end.short(), o.stdout_str()),
                    Err(e) => println!("rejected: {}", e.to_json()),
                }
                Ok(())
            }
            k => panic!("unknown replay kind {}", k),
        }
    }
}

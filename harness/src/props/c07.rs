//! C07 — parsing + static checking of ANY text ends with a checked program or
//! exactly one error whose (row, col) lies inside the text or immediately at its
//! end; no panic, no process death, no hang (nesting depth <= 300).
//!
//! Oracle (nothing else is asserted — which error, or whether a text should be
//! accepted, is not this property):
//!   * `impl_run::parse` then (if Ok) `impl_run::lint_program` return;
//!   * a captured panic (`FrontErr::Panic`) is a violation, sig = stage + panic site + message;
//!   * an error position is judged against the TEXT with this module's own line
//!     splitter (`split_lines`: CR, LF and CRLF each end a line; columns count
//!     Unicode scalar values, 1-based):
//!       valid    — position of a character of the line (1..=n), of its terminator
//!                  (n+1; for CRLF also n+2 = the LF counted separately), one past the
//!                  last character of the unterminated last line (n+1), and — when the
//!                  text ends with a line terminator — both readings of "immediately at
//!                  the end": (next row, 1) and (same row, one past the terminator);
//!       doubtful — one past the terminator of a line that is NOT the end of the text
//!                  (no character lives there, but "one column past the last character
//!                  of a line" could be read to cover it): discarded and counted;
//!       invalid  — everything else (row 0, col 0, row beyond the text, col beyond the line).
//!   * worker death / CPU watchdog are attributed by the engine to the journaled input.

use std::collections::BTreeSet;

use serde_json::{Value, json};

use crate::engine::{Shard, Tape, Tier, Violation, hash64};
use crate::impl_run::{self, FrontErr};
use crate::props::Prop;

pub struct C07;

// ---------------------------------------------------------------------------
// independent position model
// ---------------------------------------------------------------------------

/// (content chars, terminator chars) per line. The last entry is the
/// unterminated tail of the text (possibly empty), so the vector is never empty.
pub fn split_lines(text: &str) -> Vec<(u32, u32)> {
    let mut lines = vec![];
    let mut n = 0u32;
    let mut it = text.chars().peekable();
    while let Some(c) = it.next() {
        match c {
            '\r' => {
                if it.peek() == Some(&'\n') {
                    it.next();
                    lines.push((n, 2));
                } else {
                    lines.push((n, 1));
                }
                n = 0;
            }
            '\n' => {
                lines.push((n, 1));
                n = 0;
            }
            _ => n += 1,
        }
    }
    lines.push((n, 0));
    lines
}

#[derive(Clone, Copy, Debug, PartialEq, Eq)]
pub enum PosVerdict {
    Valid(&'static str),
    Doubtful(&'static str),
    Invalid(&'static str),
}

pub fn judge_pos(text: &str, row: u32, col: u32) -> PosVerdict {
    if row == 0 {
        return PosVerdict::Invalid("row-0");
    }
    if col == 0 {
        return PosVerdict::Invalid("col-0");
    }
    let lines = split_lines(text);
    let nlines = lines.len() as u32;
    if row > nlines {
        return PosVerdict::Invalid("row-beyond-text");
    }
    let (n, t) = lines[(row - 1) as usize];
    // does the text end with this line's terminator?
    let ends_text = t > 0 && row + 1 == nlines && lines[(nlines - 1) as usize] == (0, 0);
    if col <= n {
        PosVerdict::Valid("character")
    } else if col == n + 1 {
        if t > 0 {
            PosVerdict::Valid("line-terminator")
        } else {
            // only the last entry has t == 0
            PosVerdict::Valid("end-of-text")
        }
    } else if t == 2 && col == n + 2 {
        PosVerdict::Valid("lf-of-crlf")
    } else if ends_text && col == n + t + 1 {
        PosVerdict::Valid("end-of-text-after-terminator")
    } else if t > 0 && col == n + t + 1 {
        PosVerdict::Doubtful("one past the terminator of an inner line")
    } else {
        PosVerdict::Invalid("col-beyond-line")
    }
}

fn thread_cpu_us() -> u64 {
    let mut ts = libc::timespec { tv_sec: 0, tv_nsec: 0 };
    unsafe {
        libc::clock_gettime(libc::CLOCK_THREAD_CPUTIME_ID, &mut ts);
    }
    ts.tv_sec as u64 * 1_000_000 + ts.tv_nsec as u64 / 1000
}

fn cpu_bucket(us: u64) -> &'static str {
    match us {
        0..=9_999 => "cpu:<10ms",
        10_000..=99_999 => "cpu:10-100ms",
        100_000..=999_999 => "cpu:0.1-1s",
        1_000_000..=9_999_999 => "cpu:1-10s",
        _ => "cpu:>10s",
    }
}

/// One signature per panic SITE: stage + file:line + the constant head of the message
/// (the message is cut where the formatted payload starts, digits collapsed), so that
/// `Illegal sub name FunctionCall(Name { "A" ...` and `... { "OPENA" ...` are one finding.
fn panic_sig(stage: &str, info: &crate::panics::PanicInfo) -> String {
    let head: String = info.msg.split(|c| c == '(' || c == '{' || c == '"' || c == '`' || c == '\'').next().unwrap_or("").trim().chars().take(60).collect();
    let mut m = String::new();
    let mut last_digit = false;
    for ch in head.chars() {
        if ch.is_ascii_digit() {
            if !last_digit {
                m.push('N');
            }
            last_digit = true;
        } else {
            last_digit = false;
            m.push(ch);
        }
    }
    format!("panic:{}:{}:{}", stage, info.loc, m)
}

fn clip(text: &str) -> String {
    if text.chars().count() <= 400 { text.to_string() } else { format!("{}… ({} chars)", text.chars().take(400).collect::<String>(), text.chars().count()) }
}

/// The check itself. `source` only labels the histogram.
/// List-like forms whose length is a parameter: `n` separators / items / repetitions.
const REPEAT_FORMS: [(&str, fn(usize) -> String); 22] = [
    ("locate-leading-commas", |n| format!("LOCATE {}1\n", ",".repeat(n))),
    ("locate-trailing-commas", |n| format!("LOCATE 1{}\n", ",".repeat(n))),
    ("locate-all-present", |n| format!("LOCATE 1{}\n", ", 1".repeat(n))),
    ("color-leading-commas", |n| format!("COLOR {}1\n", ",".repeat(n))),
    ("color-all-present", |n| format!("COLOR 1{}\n", ", 2".repeat(n))),
    ("print-commas", |n| format!("PRINT {}\n", ",".repeat(n))),
    ("print-semicolons", |n| format!("PRINT 1{}\n", ";".repeat(n))),
    ("print-items", |n| format!("PRINT 1{}\n", "; 2".repeat(n))),
    ("print-using-items", |n| format!("PRINT USING \"#\"; 1{}\n", "; 2".repeat(n))),
    ("input-variables", |n| format!("INPUT A{}\n", ", B".repeat(n))),
    ("read-variables", |n| format!("READ A{}\n", ", B".repeat(n))),
    ("data-items", |n| format!("DATA 1{}\n", ", 2".repeat(n))),
    ("data-empty-items", |n| format!("DATA {}\n", ",".repeat(n))),
    ("dim-variables", |n| format!("DIM A{}\n", (0..n).map(|i| format!(", B{}", i)).collect::<String>())),
    ("dim-dimensions", |n| format!("DIM A(1{})\n", ", 1".repeat(n))),
    ("subscripts", |n| format!("A(1{}) = 1\n", ", 1".repeat(n))),
    ("call-arguments", |n| format!("S 1{}\nSUB S\nEND SUB\n", ", 2".repeat(n))),
    ("function-arguments", |n| format!("PRINT F(1{})\n", ", 2".repeat(n))),
    ("case-items", |n| format!("SELECT CASE 1\nCASE 1{}\nEND SELECT\n", ", 2".repeat(n))),
    ("close-handles", |n| format!("CLOSE #1{}\n", ", #2".repeat(n))),
    ("colon-statements", |n| format!("X = 1{}\n", ": X = 2".repeat(n))),
    ("deftype-ranges", |n| format!("DEFINT A{}\n", ", B-C".repeat(n))),
];

fn check_text(sh: &mut Shard, source: &str, text: &str) -> Result<(), Violation> {
    sh.journal(text);
    sh.eval();
    let t0 = thread_cpu_us();
    let (outcome, nstmts): (Result<(), FrontErr>, usize) = match impl_run::parse(text) {
        Err(e) => (Err(e), 0),
        Ok(program) => {
            let n = program.len();
            match impl_run::lint_program(program) {
                Ok(_) => (Ok(()), n),
                Err(e) => (Err(e), n),
            }
        }
    };
    let us = thread_cpu_us().saturating_sub(t0);
    sh.class(cpu_bucket(us));
    let inputs = json!({"source": source, "text": text});
    match outcome {
        Ok(()) => {
            sh.class(&format!("{}/ok", source));
            if nstmts >= 2 {
                sh.nontrivial(hash64(text));
                sh.sample_sparse(211, || json!({"source": source, "text": clip(text), "outcome": "ok", "global_statements": nstmts}));
            }
            Ok(())
        }
        Err(FrontErr::Panic { stage, info }) => {
            sh.class(&format!("{}/panic", source));
            let e = FrontErr::Panic { stage, info: info.clone() };
            Err(Violation::new(panic_sig(stage, &info), format!("{} panicked: {} at {}", stage, info.msg, info.loc), inputs)
                .exp_obs("a checked program or one error with a position", e.to_json()))
        }
        Err(e) => {
            let (stage, variant) = match &e {
                FrontErr::Parse { variant, .. } => ("parse", variant.clone()),
                FrontErr::Lint { variant, .. } => ("lint", variant.clone()),
                FrontErr::Panic { .. } => unreachable!(),
            };
            sh.class(&format!("{}/{}-error", source, stage));
            sh.class(&format!("error:{}:{}", stage, variant));
            let (row, col) = e.pos().unwrap();
            match judge_pos(text, row, col) {
                PosVerdict::Valid(kind) => {
                    sh.class(&format!("position:{}", if (row, col) == (1, 1) { "(1,1)" } else { kind }));
                    if (row, col) != (1, 1) {
                        sh.nontrivial(hash64(text));
                        sh.sample_sparse(197, || json!({"source": source, "text": clip(text), "outcome": e.to_json(), "position_is": kind}));
                    }
                    Ok(())
                }
                PosVerdict::Doubtful(why) => {
                    sh.class("position:doubtful");
                    sh.discard(&format!("error position {}: undetermined by the statement", why));
                    Ok(())
                }
                PosVerdict::Invalid(how) => {
                    sh.class("position:INVALID");
                    let lines = split_lines(text);
                    Err(Violation::new(
                        format!("invalid-position:{}:{}:{}", stage, variant, how),
                        format!("{} error {} reported at ({},{}) which is not inside the text nor immediately at its end ({})", stage, variant, row, col, how),
                        inputs,
                    )
                    .exp_obs(
                        json!({"rows": lines.len(), "line_lengths_content_and_terminator": lines.iter().take(50).collect::<Vec<_>>()}),
                        e.to_json(),
                    ))
                }
            }
        }
    }
}

// ---------------------------------------------------------------------------
// the lexer's alphabet
// ---------------------------------------------------------------------------

/// Every keyword of rusty_parser/src/core/keyword.rs.
const KEYWORDS: &[&str] = &[
    "ACCESS", "AND", "APPEND", "AS", "CASE", "CLOSE", "COLOR", "CONST", "DATA", "DECLARE", "DEF", "DEFDBL", "DEFINT", "DEFLNG", "DEFSNG", "DEFSTR", "DIM", "DO", "DOUBLE", "ELSE", "ELSEIF", "END", "ERROR", "EXIT",
    "FIELD", "FOR", "FUNCTION", "GET", "GOSUB", "GOTO", "IF", "INPUT", "INTEGER", "IS", "LEN", "LINE", "LOCATE", "LONG", "LOOP", "LPRINT", "LSET", "MOD", "NAME", "NEXT", "NOT", "ON", "OPEN", "OR", "OUTPUT", "PRINT",
    "PUT", "RANDOM", "READ", "REDIM", "RESUME", "RETURN", "SEG", "SELECT", "SHARED", "SINGLE", "STATIC", "STEP", "STRING", "SUB", "SYSTEM", "THEN", "TO", "TYPE", "UNTIL", "USING", "VIEW", "WEND", "WHILE", "WIDTH",
];
/// Keywords that can start a statement (simplest first: index 0 is what an exhausted tape yields).
const STMT_KW: &[&str] = &[
    "PRINT", "IF", "FOR", "NEXT", "DIM", "CONST", "WHILE", "WEND", "DO", "LOOP", "SELECT", "CASE", "END", "ELSE", "ELSEIF", "GOTO", "GOSUB", "RETURN", "SUB", "FUNCTION", "DECLARE", "TYPE", "REDIM", "INPUT", "LINE", "OPEN",
    "CLOSE", "ON", "RESUME", "EXIT", "DATA", "READ", "DEFINT", "DEFSTR", "DEFLNG", "DEFSNG", "DEFDBL", "DEF", "LPRINT", "LOCATE", "COLOR", "VIEW", "WIDTH", "GET", "PUT", "FIELD", "LSET", "NAME", "SYSTEM", "STATIC", "SHARED",
];
/// Keywords that continue a statement.
const MID_KW: &[&str] = &[
    "THEN", "TO", "STEP", "AS", "AND", "OR", "MOD", "NOT", "IS", "ELSE", "USING", "UNTIL", "WHILE", "GOTO", "NEXT", "ERROR", "SEG", "FOR", "INPUT", "OUTPUT", "APPEND", "RANDOM", "ACCESS", "READ", "LEN", "CASE", "SELECT",
    "SUB", "FUNCTION", "IF", "TYPE", "SHARED", "STATIC", "PRINT",
];
const TYPE_KW: &[&str] = &["INTEGER", "LONG", "SINGLE", "DOUBLE", "STRING", "STRING * 5", "Card", "T"];
const BUILTIN_FNS: &[&str] = &[
    "LEN", "CHR$", "CVD", "ENVIRON$", "EOF", "ERR", "INKEY$", "INSTR", "LBOUND", "LCASE$", "LEFT$", "LTRIM$", "MID$", "MKD$", "PEEK", "RIGHT$", "RTRIM$", "SPACE$", "STR$", "STRING$", "UBOUND", "UCASE$", "VAL", "VARPTR", "VARSEG",
];
const BUILTIN_SUBS: &[&str] = &["CLS", "BEEP", "CALL", "COLOR", "ENVIRON", "KILL", "POKE", "SCREEN"];
const NAMES: &[&str] = &["A", "B", "I", "N", "X", "F", "S", "T", "Foo", "P.Q", "A1", "x", "Card", "Suit", "Value", "ABCDEFGHIJKLMNOPQRSTUVWXYZABCDEFGHIJKLMN", "ABCDEFGHIJKLMNOPQRSTUVWXYZABCDEFGHIJKLMNO", "A.", "L1", "Done"];
const SUFFIXES: &[&str] = &["", "%", "$", "&", "!", "#"];
const NUMBERS: &[&str] = &[
    "1", "0", "2", "10", "42", "255", "32767", "32768", "65535", "65536", "2147483647", "2147483648", "4294967295", "4294967296", "99999999999999999999", "1.5", ".5", "1.", "0.0", "3.14159", "1E5", "1D3", "1e+5", "1.5E-3", "2!",
    "3#", "4%", "5&", "00012", "1.2.3", "123456789.123456789",
];
const HEXOCT: &[&str] = &[
    "&H0", "&HFF", "&H7FFF", "&H8000", "&HFFFF", "&H10000", "&HFFFFFFFF", "&H100000000", "&H-1", "&H-FFFFFFFF", "&H", "&HG", "&h1f", "&O0", "&O7", "&O17", "&O77777", "&O177777", "&O200000", "&O37777777777", "&O40000000000", "&O-7",
    "&O", "&O8", "&o17", "&", "&B1", "&HFFFFFFFFFFFFFFFFFFFF",
];
const STRINGS: &[&str] = &["\"a\"", "\"\"", "\"Hello, world\"", "\"it's\"", "\"a:b\"", "\"unterminated", "\"é日\"", "\"\t\"", "\"REM\"", "\"#\""];
const BIN_OPS: &[&str] = &["+", "=", "-", "*", "/", "\\", "^", "<", ">", "<=", ">=", "<>", "AND", "OR", "MOD", "=<", "=>", "><"];
const SYMBOLS: &[&str] = &[
    "(", ")", ",", ";", ":", ".", "#", "$", "%", "&", "!", "'", "?", "_", "@", "[", "]", "{", "}", "~", "|", "`", "\"", "+", "-", "*", "/", "\\", "^", "=", "<", ">", "<=", ">=", "<>",
];
const BLANKS: &[&str] = &[" ", "\t", "  ", " \t "];
const EOLS: &[&str] = &["\n", "\r\n", "\r"];
const COMMENTS: &[&str] = &["' comment", "'", "REM remark", "REM", "' é", "'\"", "REM: PRINT 1"];
const NON_ASCII: &[&str] = &[
    "é", "ß", "Ω", "д", "日", "ａ", "İ", "ı", "\u{a0}", "\u{feff}", "\u{2028}", "\u{85}", "\u{0}", "\u{7f}", "\u{1b}", "😀", "\u{301}", "\u{200b}", "\u{b}", "\u{c}", "\u{fffd}",
];

fn ident(t: &mut Tape) -> String {
    let n = *t.pick(NAMES);
    let s = if t.chance(1, 3) { *t.pick(SUFFIXES) } else { "" };
    format!("{}{}", n, s)
}

/// One token drawn from the whole alphabet.
fn any_token(t: &mut Tape) -> String {
    match t.choose(14) {
        0 => t.pick(STMT_KW).to_string(),
        1 => ident(t),
        2 => t.pick(NUMBERS).to_string(),
        3 => t.pick(SYMBOLS).to_string(),
        4 => t.pick(KEYWORDS).to_string(),
        5 => t.pick(STRINGS).to_string(),
        6 => t.pick(BUILTIN_FNS).to_string(),
        7 => t.pick(HEXOCT).to_string(),
        8 => t.pick(EOLS).to_string(),
        9 => t.pick(BLANKS).to_string(),
        10 => t.pick(COMMENTS).to_string(),
        11 => t.pick(NON_ASCII).to_string(),
        12 => t.pick(BUILTIN_SUBS).to_string(),
        _ => {
            // lower / mixed case keyword
            let k = t.pick(KEYWORDS).to_string();
            if t.chance(1, 2) { k.to_lowercase() } else { k[..1].to_string() + &k[1..].to_lowercase() }
        }
    }
}

fn is_wordy_end(s: &str) -> bool {
    s.chars().last().map(|c| c.is_alphanumeric() || "%&!#$._".contains(c)).unwrap_or(false)
}
fn is_wordy_start(s: &str) -> bool {
    s.chars().next().map(|c| c.is_alphanumeric() || c == '.' || c == '&').unwrap_or(false)
}

// ---------------------------------------------------------------------------
// source (a): random bytes
// ---------------------------------------------------------------------------

fn gen_bytes(t: &mut Tape) -> (String, &'static str) {
    let mode = t.choose(4);
    let len = t.range(0, 40) as usize;
    let mut bytes: Vec<u8> = vec![];
    let label = match mode {
        0 => {
            // ASCII-biased
            for _ in 0..len {
                let b = match t.choose(8) {
                    0..=4 => t.range(0x20, 0x7e) as u8,
                    5 => *t.pick(&[b' ', b'\n', b'\r', b'\t', b':', b'"', b'\'']),
                    _ => t.range(0, 255) as u8,
                };
                bytes.push(b);
            }
            "bytes-ascii-biased"
        }
        1 => {
            for _ in 0..len {
                bytes.push(t.range(0, 255) as u8);
            }
            "bytes-uniform"
        }
        2 => {
            // a valid opening followed by random bytes
            let head = *t.pick(&["PRINT ", "A = ", "IF ", "PRINT \"", "X$ = \"", "' ", "DIM ", "FOR I = 1 TO ", "A", "PRINT 1\n", "PRINT 1\r\n", "SUB S\n", "DATA ", "REM "]);
            bytes.extend_from_slice(head.as_bytes());
            for _ in 0..len.min(24) {
                bytes.push(t.range(0, 255) as u8);
            }
            "bytes-after-valid-head"
        }
        _ => {
            // UTF-8 edge sequences mixed with ASCII
            const SEQS: &[&[u8]] = &[
                b"A", b" ", b"\n", b"\r", b"\r\n", b"=", b"\"", b"1", b"PRINT", &[0xc3, 0xa9], &[0xc3], &[0xe6, 0x97, 0xa5], &[0xe6, 0x97], &[0xf0, 0x9f, 0x98, 0x80], &[0xf0, 0x9f, 0x98], &[0xc0, 0x80], &[0xed, 0xa0, 0x80], &[0xef, 0xbb, 0xbf],
                &[0xff], &[0xfe], &[0x80], &[0xbf], &[0xe2, 0x80, 0xa8], &[0xc2, 0x85], &[0xf4, 0x90, 0x80, 0x80], &[0x00], &[0x1a], &[0x7f],
            ];
            for _ in 0..len.min(20) {
                let s: &[u8] = SEQS[t.choose(SEQS.len())];
                bytes.extend_from_slice(s);
            }
            "bytes-utf8-edges"
        }
    };
    (String::from_utf8_lossy(&bytes).to_string(), label)
}

// ---------------------------------------------------------------------------
// source (b1): token soup with category transitions
// ---------------------------------------------------------------------------

#[derive(Clone, Copy, PartialEq, Eq, Debug)]
enum Cat {
    StmtKw,
    Ident,
    Num,
    Op,
    Str,
    MidKw,
    Open,
    Close,
    Sep,
    Eol,
    Fn,
    HexOct,
    Unary,
    Junk,
    Comment,
    TypeKw,
    Sub,
}

fn next_cat(prev: Option<Cat>, t: &mut Tape) -> Cat {
    use Cat::*;
    if t.chance(1, 9) {
        return Junk;
    }
    let prefer: &[Cat] = match prev {
        None | Some(Eol) => &[StmtKw, StmtKw, StmtKw, StmtKw, Ident, Ident, Sub, Comment, Eol, Num],
        Some(StmtKw) => &[Ident, Ident, Ident, Num, Num, Str, Str, Fn, Open, Unary, MidKw, MidKw, Eol, Eol, HexOct, StmtKw, TypeKw],
        Some(Sub) => &[Num, Ident, Str, Eol, Open, Fn],
        Some(Ident) => &[Op, Op, Op, Op, Open, Open, Sep, Sep, Eol, Eol, Eol, MidKw, MidKw, MidKw, Close],
        Some(Num) | Some(Str) | Some(HexOct) | Some(Close) => &[Op, Op, Op, Op, Sep, Sep, Eol, Eol, Eol, MidKw, MidKw, MidKw, Close, Close],
        Some(Op) | Some(Unary) | Some(Open) | Some(Sep) => &[Ident, Ident, Ident, Num, Num, Num, Str, Fn, Fn, Open, Open, Unary, HexOct],
        Some(MidKw) => &[Ident, Ident, Ident, Num, Num, Num, Str, Fn, Open, StmtKw, StmtKw, StmtKw, TypeKw, TypeKw, Eol],
        Some(Fn) => &[Open, Open, Open, Open, Open, Op, Eol],
        Some(TypeKw) => &[Eol, Eol, Eol, Sep, Op, Close],
        Some(Comment) => &[Eol],
        Some(Junk) => &[StmtKw, Ident, Num, Op, Str, MidKw, Open, Close, Sep, Eol, Fn, HexOct, Unary, Comment, TypeKw, Sub],
    };
    *t.pick(prefer)
}

fn cat_token(c: Cat, t: &mut Tape) -> String {
    match c {
        Cat::StmtKw => t.pick(STMT_KW).to_string(),
        Cat::Ident => ident(t),
        Cat::Num => t.pick(NUMBERS).to_string(),
        Cat::Op => t.pick(BIN_OPS).to_string(),
        Cat::Str => t.pick(STRINGS).to_string(),
        Cat::MidKw => t.pick(MID_KW).to_string(),
        Cat::Open => "(".to_string(),
        Cat::Close => ")".to_string(),
        Cat::Sep => t.pick(&[",", ";"]).to_string(),
        Cat::Eol => {
            if t.chance(1, 4) { ":".to_string() } else { t.pick(EOLS).to_string() }
        }
        Cat::Fn => t.pick(BUILTIN_FNS).to_string(),
        Cat::HexOct => t.pick(HEXOCT).to_string(),
        Cat::Unary => t.pick(&["-", "NOT", "+"]).to_string(),
        Cat::Junk => any_token(t),
        Cat::Comment => t.pick(COMMENTS).to_string(),
        Cat::TypeKw => t.pick(TYPE_KW).to_string(),
        Cat::Sub => t.pick(BUILTIN_SUBS).to_string(),
    }
}

fn gen_soup(t: &mut Tape) -> String {
    let n = t.range(1, 36);
    let mut out = String::new();
    let mut prev: Option<Cat> = None;
    let mut prev_tok = String::new();
    for _ in 0..n {
        let c = next_cat(prev, t);
        let tok = cat_token(c, t);
        // spacing: wordy neighbours get a blank (rarely glued); '(' hugs a name; otherwise coin flip
        let glue_wordy = is_wordy_end(&prev_tok) && is_wordy_start(&tok);
        let space = if out.is_empty() || c == Cat::Eol || prev == Some(Cat::Eol) && tok != ":" {
            t.chance(1, 12)
        } else if glue_wordy {
            !t.chance(1, 16)
        } else if c == Cat::Open && matches!(prev, Some(Cat::Ident) | Some(Cat::Fn)) {
            t.chance(1, 10)
        } else if c == Cat::Close || c == Cat::Sep || prev == Some(Cat::Open) {
            t.chance(1, 8)
        } else {
            !t.chance(1, 4)
        };
        if space {
            out.push_str(if t.chance(1, 12) { "\t" } else { " " });
        }
        out.push_str(&tok);
        prev = Some(c);
        prev_tok = tok;
    }
    out
}

// ---------------------------------------------------------------------------
// source (b2): statement-shaped soup (grammar-biased, small name pool, noise)
// ---------------------------------------------------------------------------

struct G<'a, 'b> {
    t: &'a mut Tape<'b>,
    toks: Vec<String>,
    budget: i32,
    eol: &'static str,
    /// 0 = no token noise; otherwise 3 in `noise` tokens are dropped / doubled / replaced
    noise: u32,
}

const POOL: &[&str] = &["A", "B", "F", "S", "T", "I", "X", "N"];
const POOL_SUFFIX: &[&str] = &["", "", "", "%", "$", "!", "#", "&"];

impl<'a, 'b> G<'a, 'b> {
    fn push(&mut self, s: &str) {
        self.budget -= 1;
        if self.noise == 0 {
            self.toks.push(s.to_string());
            return;
        }
        // noise: drop / duplicate / replace (never when the tape is exhausted)
        let k = self.t.choose(self.noise as usize) as u32;
        if k + 1 == self.noise {
            // dropped
        } else if k + 2 == self.noise {
            self.toks.push(s.to_string());
            self.toks.push(s.to_string());
        } else if k + 3 == self.noise {
            let x = any_token(self.t);
            self.toks.push(x);
        } else {
            self.toks.push(s.to_string());
        }
    }
    fn kw(&mut self, s: &str) {
        for w in s.split(' ') {
            self.push(w);
        }
    }
    fn nl(&mut self) {
        let e = if self.t.chance(1, 10) { *self.t.pick(EOLS) } else { self.eol };
        if self.t.chance(1, 12) {
            self.push(":");
        } else {
            self.push(e);
        }
    }
    fn bare(&mut self) -> String {
        self.t.pick(POOL).to_string()
    }
    fn name(&mut self) -> String {
        let b = self.bare();
        let s = *self.t.pick(POOL_SUFFIX);
        format!("{}{}", b, s)
    }
    fn type_name(&mut self) {
        match self.t.choose(9) {
            0 => self.push("INTEGER"),
            1 => self.push("STRING"),
            2 => self.push("LONG"),
            3 => self.push("SINGLE"),
            4 => self.push("DOUBLE"),
            5 => {
                self.push("STRING");
                self.push("*");
                self.expr(0);
            }
            _ => {
                let b = self.bare();
                self.push(&b);
            }
        }
    }
    fn args(&mut self, d: u32, lo: i64, hi: i64) {
        let n = self.t.range(lo, hi);
        for i in 0..n {
            if i > 0 {
                self.push(",");
            }
            self.expr(d);
        }
    }
    fn lvalue(&mut self, d: u32) {
        let n = self.name();
        match self.t.choose(8) {
            5 => {
                self.push(&n);
                self.push("(");
                self.args(d, 1, 2);
                self.push(")");
            }
            6 => {
                let f = self.bare();
                self.push(&format!("{}.{}", n, f));
            }
            7 => {
                self.push(&n);
                self.push("(");
                self.args(d, 1, 1);
                self.push(")");
                let f = self.bare();
                self.push(&format!(".{}", f));
            }
            _ => self.push(&n),
        }
    }
    fn expr(&mut self, d: u32) {
        if self.budget <= 0 {
            self.push("1");
            return;
        }
        let k = if d == 0 { self.t.choose(6) } else { self.t.choose(14) };
        match k {
            0 => {
                let x = self.t.pick(&["1", "0", "2", "42", "32767", "32768", "65536", "1.5", ".5", "4294967295", "4294967296"]).to_string();
                self.push(&x);
            }
            1 => {
                let n = self.name();
                self.push(&n);
            }
            2 => {
                let s = self.t.pick(STRINGS).to_string();
                self.push(&s);
            }
            3 => self.lvalue(0),
            4 => {
                let x = self.t.pick(HEXOCT).to_string();
                self.push(&x);
            }
            5 => {
                let x = self.t.pick(NUMBERS).to_string();
                self.push(&x);
            }
            6 | 7 => {
                self.expr(d - 1);
                let op = self.t.pick(BIN_OPS).to_string();
                self.push(&op);
                self.expr(d - 1);
            }
            8 => {
                self.push("(");
                self.expr(d - 1);
                self.push(")");
            }
            9 => {
                let u = self.t.pick(&["-", "NOT"]).to_string();
                self.push(&u);
                self.expr(d - 1);
            }
            10 | 11 => {
                let f = self.t.pick(BUILTIN_FNS).to_string();
                self.push(&f);
                if !self.t.chance(1, 8) {
                    self.push("(");
                    self.args(d - 1, 0, 3);
                    self.push(")");
                }
            }
            _ => {
                let n = self.name();
                self.push(&n);
                self.push("(");
                self.args(d - 1, 0, 3);
                self.push(")");
            }
        }
    }
    fn params(&mut self) {
        if self.t.chance(1, 3) {
            return;
        }
        self.push("(");
        let n = self.t.range(0, 3);
        for i in 0..n {
            if i > 0 {
                self.push(",");
            }
            let p = self.name();
            self.push(&p);
            if self.t.chance(1, 5) {
                self.push("(");
                self.push(")");
            }
            if self.t.chance(1, 3) {
                self.push("AS");
                self.type_name();
            }
        }
        self.push(")");
    }
    fn dim_item(&mut self) {
        let n = self.name();
        self.push(&n);
        if self.t.chance(1, 2) {
            self.push("(");
            let k = self.t.range(0, 2);
            for i in 0..k {
                if i > 0 {
                    self.push(",");
                }
                self.expr(1);
                if self.t.chance(1, 3) {
                    self.push("TO");
                    self.expr(1);
                }
            }
            self.push(")");
        }
        if self.t.chance(1, 2) {
            self.push("AS");
            self.type_name();
        }
    }
    fn body(&mut self, d: u32) {
        let n = self.t.range(0, 2);
        for _ in 0..n {
            self.stmt(d);
            self.nl();
        }
    }
    fn file_no(&mut self) {
        if !self.t.chance(1, 6) {
            self.push("#");
        }
        self.expr(0);
    }
    fn stmt(&mut self, d: u32) {
        if self.budget <= 0 {
            self.push("PRINT");
            return;
        }
        let k = if d == 0 { self.t.choose(30) } else { self.t.choose(46) };
        match k {
            0 => {
                self.push("PRINT");
                let n = self.t.range(0, 3);
                for i in 0..n {
                    if i > 0 {
                        let s = self.t.pick(&[";", ","]).to_string();
                        self.push(&s);
                    }
                    self.expr(2);
                }
                if self.t.chance(1, 6) {
                    self.push(";");
                }
            }
            1 | 2 => {
                self.lvalue(1);
                self.push("=");
                self.expr(2);
            }
            3 => {
                self.push("DIM");
                if self.t.chance(1, 5) {
                    self.push("SHARED");
                }
                self.dim_item();
                if self.t.chance(1, 5) {
                    self.push(",");
                    self.dim_item();
                }
            }
            4 => {
                self.push("CONST");
                let n = self.name();
                self.push(&n);
                self.push("=");
                self.expr(2);
                if self.t.chance(1, 6) {
                    self.push(",");
                    let n = self.name();
                    self.push(&n);
                    self.push("=");
                    self.expr(1);
                }
            }
            5 => {
                self.push("REDIM");
                if self.t.chance(1, 6) {
                    self.push("SHARED");
                }
                self.dim_item();
            }
            6 => {
                // sub call without parentheses
                let b = if self.t.chance(1, 3) { self.t.pick(BUILTIN_SUBS).to_string() } else { self.bare() };
                self.push(&b);
                self.args(1, 0, 3);
            }
            7 => {
                let x = self.t.pick(&["GOTO", "GOSUB", "RETURN", "RESUME", "ON ERROR GOTO", "ON ERROR RESUME", "RESUME NEXT", "RETURN"]).to_string();
                self.kw(&x);
                if self.t.chance(2, 3) {
                    let l = self.t.pick(&["L1", "A", "10", "0", "Done", "F", "S"]).to_string();
                    self.push(&l);
                }
            }
            8 => {
                let l = self.t.pick(&["L1", "A", "10", "Done", "F", "S"]).to_string();
                self.push(&format!("{}:", l));
            }
            9 => {
                let x = self.t.pick(&["END", "SYSTEM", "EXIT SUB", "EXIT FUNCTION", "EXIT FOR", "EXIT DO", "END IF", "END SUB", "END FUNCTION", "END SELECT", "END TYPE", "WEND", "LOOP", "NEXT", "ELSE", "CASE ELSE", "STOP"]).to_string();
                self.kw(&x);
            }
            10 => {
                let x = self.t.pick(&["DEFINT", "DEFSTR", "DEFLNG", "DEFSNG", "DEFDBL"]).to_string();
                self.push(&x);
                let r = self.t.pick(&["A-Z", "A", "A-C", "I-N", "Z-A", "A,B", "A-", "1-2", "AA-ZZ", "F", "S-T", "a-z"]).to_string();
                self.push(&r);
            }
            11 => {
                let c = self.t.pick(COMMENTS).to_string();
                self.push(&c);
            }
            12 => {
                // INPUT / LINE INPUT
                if self.t.chance(1, 2) {
                    self.push("LINE");
                }
                self.push("INPUT");
                match self.t.choose(4) {
                    0 => {}
                    1 => {
                        self.file_no();
                        self.push(",");
                    }
                    2 => {
                        self.push("\"prompt\"");
                        let s = self.t.pick(&[";", ","]).to_string();
                        self.push(&s);
                    }
                    _ => {
                        self.push(";");
                    }
                }
                let n = self.t.range(0, 2);
                for i in 0..n {
                    if i > 0 {
                        self.push(",");
                    }
                    self.lvalue(0);
                }
            }
            13 => {
                self.push("OPEN");
                self.expr(0);
                match self.t.choose(3) {
                    0 => {
                        self.push("FOR");
                        let m = self.t.pick(&["INPUT", "OUTPUT", "APPEND", "RANDOM", "BINARY"]).to_string();
                        self.push(&m);
                        if self.t.chance(1, 4) {
                            self.push("ACCESS");
                            let m = self.t.pick(&["READ", "WRITE", "READ WRITE"]).to_string();
                            self.kw(&m);
                        }
                        self.push("AS");
                        self.file_no();
                        if self.t.chance(1, 4) {
                            self.push("LEN");
                            self.push("=");
                            self.expr(0);
                        }
                    }
                    1 => {
                        self.push("AS");
                        self.file_no();
                    }
                    _ => {
                        self.push(",");
                        self.file_no();
                        self.push(",");
                        self.expr(0);
                    }
                }
            }
            14 => {
                let x = self.t.pick(&["CLOSE", "GET", "PUT", "FIELD", "LSET", "NAME", "READ", "DATA", "DEF SEG", "LOCATE", "COLOR", "VIEW PRINT", "WIDTH", "LPRINT", "PRINT USING", "LPRINT USING", "PRINT #1,", "CLOSE #1, #2"]).to_string();
                self.kw(&x);
                match self.t.choose(6) {
                    0 => {}
                    1 => self.file_no(),
                    2 => {
                        self.file_no();
                        self.push(",");
                        self.expr(1);
                        if self.t.chance(1, 2) {
                            self.push("AS");
                            self.lvalue(0);
                        }
                    }
                    3 => {
                        self.push("=");
                        self.expr(1);
                    }
                    4 => {
                        self.expr(1);
                        let s = self.t.pick(&["AS", "TO", ",", ";", "="]).to_string();
                        self.push(&s);
                        self.expr(1);
                    }
                    _ => self.args(1, 1, 3),
                }
            }
            15 => {
                // single-line IF
                self.push("IF");
                self.expr(2);
                self.push("THEN");
                self.stmt(0);
                if self.t.chance(1, 3) {
                    self.push("ELSE");
                    self.stmt(0);
                }
            }
            16 => {
                self.kw("DECLARE");
                let f = self.t.chance(1, 2);
                self.push(if f { "FUNCTION" } else { "SUB" });
                let n = if f { self.name() } else { self.bare() };
                self.push(&n);
                self.params();
            }
            17..=29 => {
                // the most common simple forms again, so that d == 0 still yields valid statements mostly
                match k % 3 {
                    0 => {
                        self.push("PRINT");
                        self.expr(1);
                    }
                    1 => {
                        let n = self.name();
                        self.push(&n);
                        self.push("=");
                        self.expr(1);
                    }
                    _ => {
                        let b = self.bare();
                        self.push(&b);
                        self.args(1, 0, 2);
                    }
                }
            }
            30 | 31 => {
                self.push("IF");
                self.expr(2);
                self.push("THEN");
                self.nl();
                self.body(d - 1);
                let n = self.t.range(0, 2);
                for _ in 0..n {
                    self.push("ELSEIF");
                    self.expr(1);
                    self.push("THEN");
                    self.nl();
                    self.body(d - 1);
                }
                if self.t.chance(1, 3) {
                    self.push("ELSE");
                    self.nl();
                    self.body(d - 1);
                }
                self.kw("END IF");
            }
            32..=34 => {
                self.push("FOR");
                // FOR counters that are not plain variables are the interesting ones
                self.lvalue(1);
                self.push("=");
                self.expr(1);
                self.push("TO");
                self.expr(1);
                if self.t.chance(1, 4) {
                    self.push("STEP");
                    self.expr(1);
                }
                self.nl();
                self.body(d - 1);
                self.push("NEXT");
                if self.t.chance(1, 2) {
                    self.lvalue(1);
                    if self.t.chance(1, 6) {
                        self.push(",");
                        self.lvalue(0);
                    }
                }
            }
            35 => {
                self.push("WHILE");
                self.expr(2);
                self.nl();
                self.body(d - 1);
                self.push("WEND");
            }
            36 => {
                self.push("DO");
                let pre = self.t.choose(3);
                if pre > 0 {
                    self.push(if pre == 1 { "WHILE" } else { "UNTIL" });
                    self.expr(1);
                }
                self.nl();
                self.body(d - 1);
                self.push("LOOP");
                let post = self.t.choose(3);
                if post > 0 {
                    self.push(if post == 1 { "WHILE" } else { "UNTIL" });
                    self.expr(1);
                }
            }
            37 | 38 => {
                self.kw("SELECT CASE");
                self.expr(1);
                self.nl();
                let n = self.t.range(0, 3);
                for _ in 0..n {
                    self.push("CASE");
                    match self.t.choose(5) {
                        0 => self.expr(1),
                        1 => {
                            self.expr(0);
                            self.push("TO");
                            self.expr(0);
                        }
                        2 => {
                            self.push("IS");
                            let op = self.t.pick(&[">", "<", "=", ">=", "<=", "<>"]).to_string();
                            self.push(&op);
                            self.expr(0);
                        }
                        3 => self.push("ELSE"),
                        _ => {
                            self.expr(0);
                            self.push(",");
                            self.expr(0);
                        }
                    }
                    self.nl();
                    self.body(d - 1);
                }
                self.kw("END SELECT");
            }
            39..=41 => {
                let f = self.t.chance(1, 2);
                let word = if f { "FUNCTION" } else { "SUB" };
                self.push(word);
                let n = if f { self.name() } else { self.bare() };
                self.push(&n);
                self.params();
                if self.t.chance(1, 6) {
                    self.push("STATIC");
                }
                self.nl();
                self.body(d - 1);
                if f && self.t.chance(2, 3) {
                    self.push(&n);
                    self.push("=");
                    self.expr(1);
                    self.nl();
                }
                self.push("END");
                self.push(word);
            }
            42 | 43 => {
                self.push("TYPE");
                let b = self.bare();
                self.push(&b);
                self.nl();
                let n = self.t.range(0, 3);
                for _ in 0..n {
                    let f = self.name();
                    self.push(&f);
                    self.push("AS");
                    self.type_name();
                    self.nl();
                }
                self.kw("END TYPE");
            }
            _ => {
                // block closer without opener / opener without closer
                let x = self.t.pick(&["IF 1 THEN", "FOR I = 1 TO 2", "WHILE 1", "DO", "SELECT CASE 1", "SUB S", "FUNCTION F", "TYPE T", "ELSEIF 1 THEN", "CASE 1", "NEXT I, X"]).to_string();
                self.kw(&x);
            }
        }
    }
}

fn join_tokens(toks: &[String], t: &mut Tape) -> String {
    let mut out = String::new();
    let mut prev: &str = "";
    for tok in toks {
        let is_eol = |s: &str| s == "\n" || s == "\r" || s == "\r\n";
        let mut space = if out.is_empty() || is_eol(tok) || is_eol(prev) {
            false
        } else if tok == "(" {
            // a name hugs its '(' ; keywords (except LEN) keep a blank
            let up = prev.to_uppercase();
            !is_wordy_end(prev) && prev != ")" || (KEYWORDS.contains(&up.as_str()) && up != "LEN")
        } else if tok == ")" || tok == "," || tok == ";" || (tok.starts_with('.') && tok.chars().nth(1).map(|c| c.is_ascii_alphabetic()).unwrap_or(false)) {
            false
        } else if prev == "(" || prev == "#" || prev == "-~" {
            false
        } else {
            true
        };
        if t.chance(1, 300) {
            space = !space;
        }
        if space {
            out.push_str(if t.chance(1, 30) { "\t" } else { " " });
        }
        out.push_str(if tok == "-~" { "-" } else { tok });
        prev = tok;
    }
    out
}

fn gen_stmts(t: &mut Tape) -> String {
    let eol = *t.pick(EOLS);
    let n = t.range(1, 6);
    let toks = {
        let noise = *t.pick(&[0u32, 0, 300, 60]);
        let mut g = G { t, toks: vec![], budget: 120, eol, noise };
        for i in 0..n {
            if i > 0 {
                g.nl();
            }
            g.stmt(2);
        }
        if g.t.chance(1, 3) {
            g.nl();
        }
        g.toks
    };
    join_tokens(&toks, t)
}

// ---------------------------------------------------------------------------
// source (b3): role- and type-consistent programs (so that a good share passes
// the parser and reaches the deeper lint passes), with optional role confusion
// ---------------------------------------------------------------------------

#[derive(Clone, Copy, PartialEq, Eq)]
enum Ty {
    N,
    S,
}

#[derive(Clone, Copy, PartialEq, Eq)]
enum Role {
    Var,
    Arr,
    Const,
    Sub,
    Func,
    Rec,
}

struct P<'a, 'b> {
    t: &'a mut Tape<'b>,
    toks: Vec<String>,
    budget: i32,
    eol: &'static str,
    roles: [Role; 8],
    tys: [Ty; 8],
    /// suffix a numeric name is declared with ("" for most)
    nsfx: [&'static str; 8],
    arity: [usize; 8],
    /// 0 = names always used in their role; n = one use in n ignores the role
    confuse: u32,
    /// 0 = literals always well-formed; n = one literal in n comes from the full (odd) lists
    odd: u32,
}

impl<'a, 'b> P<'a, 'b> {
    fn push(&mut self, s: &str) {
        self.budget -= 1;
        self.toks.push(s.to_string());
    }
    fn kw(&mut self, s: &str) {
        for w in s.split(' ') {
            self.push(w);
        }
    }
    fn nl(&mut self) {
        let e = self.eol;
        self.push(e);
    }
    fn confused(&mut self) -> bool {
        self.confuse > 0 && self.t.chance(1, self.confuse)
    }
    fn is_odd(&mut self) -> bool {
        self.odd > 0 && self.t.chance(1, self.odd)
    }
    fn with_role(&mut self, r: Role) -> Option<usize> {
        let c: Vec<usize> = (0..8).filter(|i| self.roles[*i] == r).collect();
        if c.is_empty() { None } else { Some(c[self.t.choose(c.len())]) }
    }
    fn any_name(&mut self) -> String {
        let b = *self.t.pick(POOL);
        let s = *self.t.pick(POOL_SUFFIX);
        format!("{}{}", b, s)
    }
    fn sfx(&mut self, ty: Ty) -> &'static str {
        match ty {
            Ty::S => "$",
            Ty::N => *self.t.pick(&["", "", "%", "!", "#", "&"]),
        }
    }
    fn var(&mut self, ty: Ty) -> String {
        if self.confused() {
            return self.any_name();
        }
        let i = self.with_role(Role::Var).unwrap_or(0);
        let s = self.sfx(ty);
        format!("{}{}", POOL[i], s)
    }
    fn decl_name(&self, i: usize) -> String {
        format!("{}{}", POOL[i], if self.tys[i] == Ty::S { "$" } else { self.nsfx[i] })
    }
    fn num_lit(&mut self) {
        let x = if self.is_odd() {
            if self.t.chance(1, 2) { self.t.pick(NUMBERS).to_string() } else { self.t.pick(HEXOCT).to_string() }
        } else {
            self.t.pick(&["1", "0", "2", "10", "42", "255", "32767", "32768", "65536", "1.5", ".5", "3.14159", "100000", "&HFF", "&O17", "2147483647"]).to_string()
        };
        self.push(&x);
    }
    fn str_lit(&mut self) {
        let x = if self.is_odd() { self.t.pick(STRINGS).to_string() } else { self.t.pick(&["\"a\"", "\"\"", "\"Hello, world\"", "\"it's\"", "\"a:b\"", "\"é日\""]).to_string() };
        self.push(&x);
    }
    fn args_typed(&mut self, d: u32, tys: &[Ty]) {
        for (i, ty) in tys.iter().enumerate() {
            if i > 0 {
                self.push(",");
            }
            self.expr(d, *ty);
        }
    }
    fn param_ty(i: usize, k: usize) -> Ty {
        if (i + k) % 3 == 2 { Ty::S } else { Ty::N }
    }
    fn call_args(&mut self, d: u32, i: usize) {
        let mut n = self.arity[i];
        if self.confused() {
            n = self.t.range(0, 3) as usize;
        }
        let tys: Vec<Ty> = (0..n).map(|k| Self::param_ty(i, k)).collect();
        self.args_typed(d, &tys);
    }
    fn array_ref(&mut self, d: u32, i: usize) {
        let n = self.decl_name(i);
        self.push(&n);
        self.push("(");
        let mut k = self.arity[i].max(1);
        if self.confused() {
            k = self.t.range(0, 3) as usize;
        }
        let tys = vec![Ty::N; k];
        self.args_typed(d, &tys);
        self.push(")");
    }
    /// A place that can be assigned / read into, of the given type.
    fn place(&mut self, d: u32, ty: Ty) {
        match self.t.choose(8) {
            5 => {
                if let Some(i) = self.with_role(Role::Arr) {
                    if self.tys[i] == ty || self.confused() {
                        self.array_ref(d, i);
                        return;
                    }
                }
                let v = self.var(ty);
                self.push(&v);
            }
            6 => {
                if let Some(i) = self.with_role(Role::Rec) {
                    let f = if ty == Ty::S { "Suit" } else { "Value" };
                    self.push(&format!("{}.{}", POOL[i], f));
                    return;
                }
                let v = self.var(ty);
                self.push(&v);
            }
            _ => {
                let v = self.var(ty);
                self.push(&v);
            }
        }
    }
    fn expr(&mut self, d: u32, ty: Ty) {
        let ty = if self.confused() { if ty == Ty::N { Ty::S } else { Ty::N } } else { ty };
        if self.budget <= 0 || d == 0 {
            match self.t.choose(3) {
                0 => {
                    if ty == Ty::N { self.num_lit() } else { self.str_lit() }
                }
                1 => {
                    let v = self.var(ty);
                    self.push(&v);
                }
                _ => self.place(0, ty),
            }
            return;
        }
        match ty {
            Ty::N => match self.t.choose(14) {
                0 => self.num_lit(),
                1 | 2 => self.place(d - 1, Ty::N),
                3 | 4 => {
                    self.expr(d - 1, Ty::N);
                    let op = self.t.pick(&["+", "-", "*", "/", "MOD", "AND", "OR", "=", "<", ">", "<=", ">=", "<>"]).to_string();
                    self.push(&op);
                    self.expr(d - 1, Ty::N);
                }
                5 => {
                    self.expr(d - 1, Ty::S);
                    let op = self.t.pick(&["=", "<", ">", "<=", ">=", "<>"]).to_string();
                    self.push(&op);
                    self.expr(d - 1, Ty::S);
                }
                6 => {
                    self.push("(");
                    self.expr(d - 1, Ty::N);
                    self.push(")");
                }
                7 => {
                    let u = self.t.pick(&["-~", "NOT"]).to_string();
                    self.push(&u);
                    self.expr(d - 1, Ty::N);
                }
                8 | 9 => {
                    // numeric built-in
                    match self.t.choose(10) {
                        0 => {
                            self.push("LEN");
                            self.push("(");
                            self.expr(d - 1, Ty::S);
                            self.push(")");
                        }
                        1 => {
                            self.push("VAL");
                            self.push("(");
                            self.expr(d - 1, Ty::S);
                            self.push(")");
                        }
                        2 => {
                            self.push("INSTR");
                            self.push("(");
                            if self.t.chance(1, 3) {
                                self.expr(d - 1, Ty::N);
                                self.push(",");
                            }
                            self.expr(d - 1, Ty::S);
                            self.push(",");
                            self.expr(d - 1, Ty::S);
                            self.push(")");
                        }
                        3 => {
                            let f = self.t.pick(&["EOF", "PEEK"]).to_string();
                            self.push(&f);
                            self.push("(");
                            self.expr(d - 1, Ty::N);
                            self.push(")");
                        }
                        4 => self.push("ERR"),
                        5 | 6 => {
                            let f = self.t.pick(&["LBOUND", "UBOUND"]).to_string();
                            self.push(&f);
                            self.push("(");
                            if let Some(i) = self.with_role(Role::Arr) {
                                let n = self.decl_name(i);
                                self.push(&n);
                            } else {
                                let v = self.var(Ty::N);
                                self.push(&v);
                            }
                            if self.t.chance(1, 3) {
                                self.push(",");
                                self.expr(0, Ty::N);
                            }
                            self.push(")");
                        }
                        7 => {
                            let f = self.t.pick(&["VARPTR", "VARSEG"]).to_string();
                            self.push(&f);
                            self.push("(");
                            self.place(0, Ty::N);
                            self.push(")");
                        }
                        8 => {
                            self.push("CVD");
                            self.push("(");
                            self.expr(d - 1, Ty::S);
                            self.push(")");
                        }
                        _ => {
                            let f = self.t.pick(BUILTIN_FNS).to_string();
                            self.push(&f);
                        }
                    }
                }
                10 | 11 => {
                    if let Some(i) = self.with_role(Role::Func) {
                        if self.tys[i] == Ty::N {
                            let n = self.decl_name(i);
                            self.push(&n);
                            if self.arity[i] > 0 || self.confused() {
                                self.push("(");
                                self.call_args(d - 1, i);
                                self.push(")");
                            }
                            return;
                        }
                    }
                    self.num_lit();
                }
                12 => {
                    if let Some(i) = self.with_role(Role::Const) {
                        if self.tys[i] == Ty::N {
                            self.push(POOL[i]);
                            return;
                        }
                    }
                    self.num_lit();
                }
                _ => {
                    if let Some(i) = self.with_role(Role::Arr) {
                        if self.tys[i] == Ty::N {
                            self.array_ref(d - 1, i);
                            return;
                        }
                    }
                    self.num_lit();
                }
            },
            Ty::S => match self.t.choose(10) {
                0 | 1 => self.str_lit(),
                2 | 3 => self.place(d - 1, Ty::S),
                4 => {
                    self.expr(d - 1, Ty::S);
                    self.push("+");
                    self.expr(d - 1, Ty::S);
                }
                5 => {
                    self.push("(");
                    self.expr(d - 1, Ty::S);
                    self.push(")");
                }
                6 => {
                    let f = self.t.pick(&["LCASE$", "UCASE$", "LTRIM$", "RTRIM$", "ENVIRON$"]).to_string();
                    self.push(&f);
                    self.push("(");
                    self.expr(d - 1, Ty::S);
                    self.push(")");
                }
                7 => {
                    let f = self.t.pick(&["LEFT$", "RIGHT$", "MID$"]).to_string();
                    self.push(&f);
                    self.push("(");
                    self.expr(d - 1, Ty::S);
                    self.push(",");
                    self.expr(d - 1, Ty::N);
                    if f == "MID$" && self.t.chance(1, 2) {
                        self.push(",");
                        self.expr(0, Ty::N);
                    }
                    self.push(")");
                }
                8 => {
                    let f = self.t.pick(&["CHR$", "STR$", "SPACE$", "MKD$", "STRING$", "INKEY$"]).to_string();
                    self.push(&f);
                    if f != "INKEY$" {
                        self.push("(");
                        self.expr(d - 1, Ty::N);
                        if f == "STRING$" {
                            self.push(",");
                            let ty2 = if self.t.chance(1, 2) { Ty::S } else { Ty::N };
                            self.expr(0, ty2);
                        }
                        self.push(")");
                    }
                }
                _ => {
                    for r in [Role::Func, Role::Arr, Role::Const] {
                        if let Some(i) = self.with_role(r) {
                            if self.tys[i] == Ty::S {
                                match r {
                                    Role::Func => {
                                        let n = self.decl_name(i);
                                        self.push(&n);
                                        if self.arity[i] > 0 {
                                            self.push("(");
                                            self.call_args(d - 1, i);
                                            self.push(")");
                                        }
                                    }
                                    Role::Arr => self.array_ref(d - 1, i),
                                    _ => {
                                        let n = self.decl_name(i);
                                        self.push(&n);
                                    }
                                }
                                return;
                            }
                        }
                    }
                    self.str_lit();
                }
            },
        }
    }
    fn const_expr(&mut self, ty: Ty) {
        if self.confused() {
            self.expr(1, ty);
            return;
        }
        let lit = |p: &mut Self| if ty == Ty::N { p.num_lit() } else { p.str_lit() };
        lit(self);
        if self.t.chance(1, 3) {
            let op = if ty == Ty::S { "+".to_string() } else { self.t.pick(&["+", "-", "*", "AND", "OR"]).to_string() };
            self.push(&op);
            lit(self);
        }
    }
    fn some_ty(&mut self) -> Ty {
        if self.t.chance(1, 3) { Ty::S } else { Ty::N }
    }
    fn as_type(&mut self, ty: Ty, allow_len: bool) {
        self.push("AS");
        match ty {
            Ty::S => {
                self.push("STRING");
                if (allow_len || self.confused()) && self.t.chance(1, 4) {
                    self.push("*");
                    self.num_lit();
                }
            }
            Ty::N => {
                let x = self.t.pick(&["INTEGER", "LONG", "SINGLE", "DOUBLE"]).to_string();
                self.push(&x);
            }
        }
    }
    fn params(&mut self, i: usize) {
        if self.arity[i] == 0 && self.t.chance(1, 2) {
            return;
        }
        self.push("(");
        for k in 0..self.arity[i] {
            if k > 0 {
                self.push(",");
            }
            // deterministic per (sub, index) so that DECLARE and the implementation agree
            let ty = Self::param_ty(i, k);
            let extended = (i + 2 * k) % 3 == 0;
            let nm = format!("P{}{}", k, if extended { "" } else if ty == Ty::S { "$" } else { "" });
            let nm = if self.confused() { self.any_name() } else { nm };
            self.push(&nm);
            if extended {
                if ty == Ty::N && !self.confused() {
                    self.kw("AS SINGLE");
                } else {
                    self.as_type(ty, false);
                }
            }
        }
        self.push(")");
    }
    fn body(&mut self, d: u32) {
        let n = self.t.range(0, 2);
        for _ in 0..n {
            self.stmt(d);
            self.nl();
        }
    }
    fn label(&mut self) -> String {
        self.t.pick(&["L1", "L2", "L3"]).to_string()
    }
    fn file_no(&mut self) {
        self.push("#");
        let x = self.t.pick(&["1", "2", "3"]).to_string();
        self.push(&x);
    }
    fn stmt(&mut self, d: u32) {
        if self.budget <= 0 {
            self.push("PRINT");
            return;
        }
        let k = if d == 0 { self.t.choose(22) } else { self.t.choose(32) };
        self.stmt_kind(k, d);
    }
    fn stmt_kind(&mut self, k: usize, d: u32) {
        match k {
            0 | 1 => {
                self.push("PRINT");
                let n = self.t.range(0, 3);
                for i in 0..n {
                    if i > 0 {
                        let s = self.t.pick(&[";", ","]).to_string();
                        self.push(&s);
                    }
                    let ty = self.some_ty();
                    self.expr(2, ty);
                }
                if n > 0 && self.t.chance(1, 6) {
                    self.push(";");
                }
            }
            2..=4 => {
                let ty = self.some_ty();
                self.place(1, ty);
                self.push("=");
                self.expr(2, ty);
            }
            5 => {
                // user sub call, else a built-in sub
                if let Some(i) = self.with_role(Role::Sub) {
                    if self.t.chance(1, 5) {
                        self.push("CALL");
                        self.push(POOL[i]);
                        if self.arity[i] > 0 {
                            self.push("(");
                            self.call_args(1, i);
                            self.push(")");
                        }
                    } else {
                        self.push(POOL[i]);
                        self.call_args(1, i);
                    }
                } else {
                    match self.t.choose(7) {
                        0 => self.push("CLS"),
                        1 => self.push("BEEP"),
                        2 => {
                            self.push("COLOR");
                            self.args_typed(1, &[Ty::N, Ty::N]);
                        }
                        3 => {
                            self.push("LOCATE");
                            self.args_typed(1, &[Ty::N, Ty::N]);
                        }
                        4 => {
                            self.push("KILL");
                            self.args_typed(1, &[Ty::S]);
                        }
                        5 => {
                            self.push("ENVIRON");
                            self.args_typed(1, &[Ty::S]);
                        }
                        _ => {
                            self.push("POKE");
                            self.args_typed(1, &[Ty::N, Ty::N]);
                        }
                    }
                }
            }
            6 => {
                let x = self.t.pick(&["GOTO", "GOSUB", "ON ERROR GOTO", "RESUME"]).to_string();
                self.kw(&x);
                let l = self.label();
                self.push(&l);
            }
            7 => {
                let x = self.t.pick(&["RETURN", "RESUME NEXT", "ON ERROR GOTO 0", "RESUME", "END", "SYSTEM", "EXIT SUB", "EXIT FUNCTION"]).to_string();
                self.kw(&x);
            }
            8 => {
                if self.t.chance(1, 2) {
                    self.kw("LINE INPUT");
                    if self.t.chance(1, 2) {
                        self.file_no();
                        self.push(",");
                    }
                    self.place(0, Ty::S);
                } else {
                    self.push("INPUT");
                    if self.t.chance(1, 3) {
                        self.file_no();
                        self.push(",");
                    }
                    let n = self.t.range(1, 2);
                    for i in 0..n {
                        if i > 0 {
                            self.push(",");
                        }
                        let ty = self.some_ty();
                        self.place(0, ty);
                    }
                }
            }
            9 => {
                self.push("OPEN");
                self.expr(1, Ty::S);
                self.push("FOR");
                let m = self.t.pick(&["INPUT", "OUTPUT", "APPEND", "RANDOM"]).to_string();
                self.push(&m);
                if self.t.chance(1, 5) {
                    self.kw("ACCESS READ");
                }
                self.push("AS");
                self.file_no();
                if self.t.chance(1, 5) {
                    self.push("LEN");
                    self.push("=");
                    self.expr(0, Ty::N);
                }
            }
            10 => match self.t.choose(8) {
                0 => {
                    self.push("CLOSE");
                    if self.t.chance(1, 2) {
                        self.file_no();
                    }
                }
                1 => {
                    self.push("PRINT");
                    self.file_no();
                    self.push(",");
                    let ty = self.some_ty();
                    self.expr(1, ty);
                }
                2 => {
                    let g = self.t.pick(&["GET", "PUT"]).to_string();
                    self.push(&g);
                    self.file_no();
                    if self.t.chance(1, 2) {
                        self.push(",");
                        self.expr(0, Ty::N);
                    }
                }
                3 => {
                    self.push("FIELD");
                    self.file_no();
                    self.push(",");
                    self.expr(0, Ty::N);
                    self.push("AS");
                    self.place(0, Ty::S);
                }
                4 => {
                    self.push("LSET");
                    self.place(0, Ty::S);
                    self.push("=");
                    self.expr(1, Ty::S);
                }
                5 => {
                    self.push("NAME");
                    self.expr(0, Ty::S);
                    self.push("AS");
                    self.expr(0, Ty::S);
                }
                6 => {
                    self.kw("PRINT USING");
                    self.expr(0, Ty::S);
                    self.push(";");
                    self.expr(1, Ty::N);
                }
                _ => {
                    self.push("LPRINT");
                    let ty = self.some_ty();
                    self.expr(1, ty);
                }
            },
            11 => {
                if self.t.chance(1, 2) {
                    self.push("DATA");
                    let n = self.t.range(1, 3);
                    for i in 0..n {
                        if i > 0 {
                            self.push(",");
                        }
                        if self.t.chance(1, 2) { self.num_lit() } else { self.str_lit() }
                    }
                } else {
                    self.push("READ");
                    let ty = self.some_ty();
                    self.place(0, ty);
                }
            }
            12 => match self.t.choose(5) {
                0 => {
                    self.kw("DEF SEG");
                    if self.t.chance(1, 2) {
                        self.push("=");
                        self.expr(1, Ty::N);
                    }
                }
                1 => {
                    self.kw("VIEW PRINT");
                    if self.t.chance(1, 2) {
                        self.expr(0, Ty::N);
                        self.push("TO");
                        self.expr(0, Ty::N);
                    }
                }
                2 => {
                    self.push("WIDTH");
                    self.args_typed(0, &[Ty::N, Ty::N]);
                }
                3 => {
                    self.push("SCREEN");
                    self.expr(0, Ty::N);
                }
                _ => {
                    self.push("LOCATE");
                    self.expr(0, Ty::N);
                }
            },
            13 => {
                // local declaration
                match self.t.choose(4) {
                    0 => {
                        self.push("DIM");
                        let ty = self.some_ty();
                        let v = self.var(ty);
                        let bare = v.trim_end_matches(|c| "%&!#$".contains(c)).to_string();
                        if self.t.chance(1, 2) {
                            self.push(&bare);
                            self.as_type(ty, true);
                        } else {
                            self.push(&v);
                        }
                    }
                    1 => {
                        self.push("CONST");
                        let ty = self.some_ty();
                        let v = self.var(ty);
                        self.push(&v);
                        self.push("=");
                        self.const_expr(ty);
                    }
                    2 => {
                        self.push("REDIM");
                        if let Some(i) = self.with_role(Role::Arr) {
                            let n = self.decl_name(i);
                            self.push(&n);
                            self.push("(");
                            let tys = vec![Ty::N; self.arity[i].max(1)];
                            self.args_typed(1, &tys);
                            self.push(")");
                        } else {
                            let v = self.var(Ty::N);
                            self.push(&v);
                            self.push("(");
                            self.expr(0, Ty::N);
                            self.push(")");
                        }
                    }
                    _ => {
                        self.push("DIM");
                        let v = self.var(Ty::N);
                        self.push(&v);
                        self.push("(");
                        self.expr(0, Ty::N);
                        if self.t.chance(1, 2) {
                            self.push("TO");
                            self.expr(0, Ty::N);
                        }
                        self.push(")");
                    }
                }
            }
            14 => {
                let c = self.t.pick(&["' comment", "' PRINT 1", "'"]).to_string();
                self.push(&c);
            }
            15 | 16 => {
                // single-line IF (its branches are simple statements; no nested single-line IF, no comment)
                self.push("IF");
                self.expr(2, Ty::N);
                self.push("THEN");
                let k1 = if self.confused() { 15 } else { self.t.choose(14) };
                self.stmt_kind(k1, 0);
                if self.t.chance(1, 3) {
                    self.push("ELSE");
                    let k2 = self.t.choose(14);
                    self.stmt_kind(k2, 0);
                }
            }
            17..=21 => {
                // the commonest forms once more
                if k % 2 == 0 {
                    self.push("PRINT");
                    let ty = self.some_ty();
                    self.expr(1, ty);
                } else {
                    let ty = self.some_ty();
                    let v = self.var(ty);
                    self.push(&v);
                    self.push("=");
                    self.expr(1, ty);
                }
            }
            22 | 23 => {
                self.push("IF");
                self.expr(2, Ty::N);
                self.push("THEN");
                self.nl();
                self.body(d - 1);
                let n = self.t.range(0, 2);
                for _ in 0..n {
                    self.push("ELSEIF");
                    self.expr(1, Ty::N);
                    self.push("THEN");
                    self.nl();
                    self.body(d - 1);
                }
                if self.t.chance(1, 3) {
                    self.push("ELSE");
                    self.nl();
                    self.body(d - 1);
                }
                self.kw("END IF");
            }
            24..=26 => {
                self.push("FOR");
                let weird = self.confused();
                let c = self.var(Ty::N);
                if weird {
                    self.place(1, Ty::N);
                } else {
                    self.push(&c);
                }
                self.push("=");
                self.expr(1, Ty::N);
                self.push("TO");
                self.expr(1, Ty::N);
                if self.t.chance(1, 4) {
                    self.push("STEP");
                    self.expr(1, Ty::N);
                }
                self.nl();
                self.body(d - 1);
                self.push("NEXT");
                if self.t.chance(1, 2) {
                    if weird || self.confused() {
                        self.place(1, Ty::N);
                    } else {
                        self.push(&c);
                    }
                }
            }
            27 => {
                self.push("WHILE");
                self.expr(2, Ty::N);
                self.nl();
                self.body(d - 1);
                self.push("WEND");
            }
            28 | 29 => {
                // the dialect has no bare DO ... LOOP: exactly one condition (none / both when confused)
                self.push("DO");
                let mut pre = self.t.choose(2) == 0;
                let mut post = !pre;
                if self.confused() {
                    pre = self.t.chance(1, 2);
                    post = self.t.chance(1, 2);
                }
                if pre {
                    let w = self.t.pick(&["WHILE", "UNTIL"]).to_string();
                    self.push(&w);
                    self.expr(1, Ty::N);
                }
                self.nl();
                self.body(d - 1);
                self.push("LOOP");
                if post {
                    let w = self.t.pick(&["WHILE", "UNTIL"]).to_string();
                    self.push(&w);
                    self.expr(1, Ty::N);
                }
            }
            _ => {
                let ty = self.some_ty();
                self.kw("SELECT CASE");
                self.expr(1, ty);
                self.nl();
                let n = self.t.range(0, 3);
                for i in 0..n {
                    self.push("CASE");
                    match self.t.choose(5) {
                        0 | 1 => self.expr(1, ty),
                        2 => {
                            self.expr(0, ty);
                            self.push("TO");
                            self.expr(0, ty);
                        }
                        3 => {
                            self.push("IS");
                            let op = self.t.pick(&[">", "<", "=", ">=", "<=", "<>"]).to_string();
                            self.push(&op);
                            self.expr(0, ty);
                        }
                        _ => {
                            if i + 1 == n {
                                self.push("ELSE");
                            } else {
                                self.expr(0, ty);
                                self.push(",");
                                self.expr(0, ty);
                            }
                        }
                    }
                    self.nl();
                    self.body(d - 1);
                }
                self.kw("END SELECT");
            }
        }
    }
    fn clash_decl(&mut self) {
        let n = self.any_name();
        let bare = n.trim_end_matches(|c| "%&!#$".contains(c)).to_string();
        match self.t.choose(9) {
            0 => {
                self.push("CONST");
                self.push(&n);
                self.push("=");
                self.num_lit();
            }
            1 => {
                self.push("DIM");
                self.push(&n);
            }
            2 => {
                self.push("DIM");
                self.push(&n);
                self.push("(");
                self.num_lit();
                self.push(")");
            }
            3 => {
                self.push("DIM");
                self.push(&bare);
                self.kw("AS Card");
            }
            4 => {
                self.kw("DIM SHARED");
                self.push(&bare);
                let ty = self.some_ty();
                self.as_type(ty, true);
            }
            5 => {
                self.push("REDIM");
                self.push(&n);
                self.push("(");
                self.num_lit();
                self.push(")");
                if self.t.chance(1, 2) {
                    let ty = self.some_ty();
                    self.as_type(ty, true);
                }
            }
            6 => {
                self.push("FOR");
                self.push(&n);
                self.kw("= 1 TO 2");
                self.nl();
                self.push("NEXT");
                if self.t.chance(1, 2) {
                    let m = self.any_name();
                    self.push(&m);
                }
            }
            7 => {
                self.push("INPUT");
                self.push(&n);
            }
            _ => {
                self.push(&n);
                self.push("=");
                self.num_lit();
            }
        }
    }
    fn program(&mut self) {
        // prologue
        if self.t.chance(1, 8) {
            let x = self.t.pick(&["DEFINT A-Z", "DEFSTR S", "DEFLNG I-N", "DEFSNG A-C, X", "DEFDBL D"]).to_string();
            self.kw(&x);
            self.nl();
        }
        for i in 0..8 {
            if matches!(self.roles[i], Role::Sub | Role::Func) && self.t.chance(1, 2) {
                self.push("DECLARE");
                self.push(if self.roles[i] == Role::Sub { "SUB" } else { "FUNCTION" });
                let n = if self.roles[i] == Role::Sub { POOL[i].to_string() } else { self.decl_name(i) };
                self.push(&n);
                self.params(i);
                self.nl();
            }
        }
        if self.roles.contains(&Role::Rec) || self.t.chance(1, 8) {
            self.kw("TYPE Card");
            self.nl();
            self.kw("Value AS INTEGER");
            self.nl();
            self.kw("Suit AS STRING * 5");
            self.nl();
            self.kw("END TYPE");
            self.nl();
        }
        for i in 0..8 {
            match self.roles[i] {
                Role::Const => {
                    self.push("CONST");
                    let n = self.decl_name(i);
                    self.push(&n);
                    self.push("=");
                    let ty = self.tys[i];
                    self.const_expr(ty);
                    self.nl();
                }
                Role::Arr => {
                    if !self.t.chance(1, 6) {
                        self.push("DIM");
                        if self.t.chance(1, 4) {
                            self.push("SHARED");
                        }
                        let n = self.decl_name(i);
                        self.push(&n);
                        self.push("(");
                        for k in 0..self.arity[i].max(1) {
                            if k > 0 {
                                self.push(",");
                            }
                            if self.t.chance(1, 3) {
                                self.expr(0, Ty::N);
                                self.push("TO");
                            }
                            self.expr(0, Ty::N);
                        }
                        self.push(")");
                        self.nl();
                    }
                }
                Role::Rec => {
                    self.push("DIM");
                    if self.t.chance(1, 4) {
                        self.push("SHARED");
                    }
                    self.push(POOL[i]);
                    self.kw("AS Card");
                    self.nl();
                }
                _ => {}
            }
        }
        // role clashes: a second, conflicting declaration of some pool name (confused programs only)
        if self.confuse > 0 {
            let n = self.t.range(0, 2);
            for _ in 0..n {
                self.clash_decl();
                self.nl();
            }
        }
        // main
        let n = self.t.range(1, 6);
        for _ in 0..n {
            self.stmt(2);
            self.nl();
        }
        for l in ["L1", "L2", "L3"] {
            if !self.t.chance(1, 4) {
                self.push(&format!("{}:", l));
                self.nl();
            }
        }
        // implementations
        for i in 0..8 {
            if matches!(self.roles[i], Role::Sub | Role::Func) && !self.t.chance(1, 10) {
                let word = if self.roles[i] == Role::Sub { "SUB" } else { "FUNCTION" };
                self.push(word);
                let n = if self.roles[i] == Role::Sub { POOL[i].to_string() } else { self.decl_name(i) };
                self.push(&n);
                self.params(i);
                if self.t.chance(1, 6) {
                    self.push("STATIC");
                }
                self.nl();
                if self.confuse > 0 && self.t.chance(1, 3) {
                    self.clash_decl();
                    self.nl();
                }
                self.body(1);
                if self.roles[i] == Role::Func {
                    // result assignments: none, one or two; through the declared or the bare name
                    let times = self.t.pick(&[1usize, 1, 1, 0, 2]).to_owned();
                    for _ in 0..times {
                        let lhs = if self.t.chance(1, 3) { POOL[i].to_string() } else { n.clone() };
                        self.push(&lhs);
                        self.push("=");
                        let ty = self.tys[i];
                        self.expr(1, ty);
                        self.nl();
                    }
                }
                self.push("END");
                self.push(word);
                self.nl();
            }
        }
    }
}

fn gen_program(t: &mut Tape) -> String {
    let eol = *t.pick(EOLS);
    let mut roles = [Role::Var; 8];
    let mut tys = [Ty::N; 8];
    let mut arity = [0usize; 8];
    for i in 1..8 {
        roles[i] = match t.choose(12) {
            0..=6 => Role::Var,
            7 => Role::Arr,
            8 => Role::Const,
            9 => Role::Sub,
            10 => Role::Func,
            _ => Role::Rec,
        };
        tys[i] = if t.chance(1, 4) { Ty::S } else { Ty::N };
        arity[i] = t.range(0, 2) as usize;
    }
    let mut nsfx = [""; 8];
    for s in nsfx.iter_mut().skip(1) {
        *s = *t.pick(&["", "", "", "%", "&", "!", "#"]);
    }
    let confuse = *t.pick(&[0u32, 0, 40, 12]);
    let odd = *t.pick(&[0u32, 0, 16, 6]);
    let toks = {
        let mut p = P { t, toks: vec![], budget: 150, eol, roles, tys, nsfx, arity, confuse, odd };
        p.program();
        p.toks
    };
    let mut calm = Tape::new(&[]);
    // blank noise only for confused programs
    if confuse == 0 { join_tokens(&toks, &mut calm) } else { join_tokens(&toks, t) }
}

// ---------------------------------------------------------------------------
// source (c): mutations of valid programs
// ---------------------------------------------------------------------------

/// A coarse BASIC lexer of this module's own (only used to find mutation points).
fn lex(text: &str) -> Vec<String> {
    let cs: Vec<char> = text.chars().collect();
    let mut out = vec![];
    let mut i = 0;
    while i < cs.len() {
        let c = cs[i];
        let start = i;
        if c.is_ascii_alphabetic() {
            while i < cs.len() && (cs[i].is_ascii_alphanumeric() || cs[i] == '.') {
                i += 1;
            }
            if i < cs.len() && "%&!#$".contains(cs[i]) {
                i += 1;
            }
        } else if c.is_ascii_digit() {
            while i < cs.len() && (cs[i].is_ascii_digit() || cs[i] == '.') {
                i += 1;
            }
        } else if c == '"' {
            i += 1;
            while i < cs.len() && cs[i] != '"' && cs[i] != '\n' && cs[i] != '\r' {
                i += 1;
            }
            if i < cs.len() && cs[i] == '"' {
                i += 1;
            }
        } else if c == '\'' {
            while i < cs.len() && cs[i] != '\n' && cs[i] != '\r' {
                i += 1;
            }
        } else if c == ' ' || c == '\t' {
            while i < cs.len() && (cs[i] == ' ' || cs[i] == '\t') {
                i += 1;
            }
        } else if c == '\r' {
            i += 1;
            if i < cs.len() && cs[i] == '\n' {
                i += 1;
            }
        } else if c == '&' && i + 1 < cs.len() && (cs[i + 1] == 'H' || cs[i + 1] == 'O' || cs[i + 1] == 'h' || cs[i + 1] == 'o') {
            i += 2;
            while i < cs.len() && cs[i].is_ascii_hexdigit() {
                i += 1;
            }
        } else if (c == '<' || c == '>') && i + 1 < cs.len() && (cs[i + 1] == '=' || (c == '<' && cs[i + 1] == '>')) {
            i += 2;
        } else {
            i += 1;
        }
        out.push(cs[start..i].iter().collect());
    }
    out
}

fn significant(tok: &str) -> bool {
    !tok.chars().all(|c| c == ' ' || c == '\t')
}

/// Index of a random non-blank token (falls back to any index).
fn pick_tok(toks: &[String], t: &mut Tape) -> usize {
    let i = t.choose(toks.len());
    for k in 0..toks.len() {
        let j = (i + k) % toks.len();
        if significant(&toks[j]) {
            return j;
        }
    }
    i
}

fn mutate_tokens(base: &str, other: &str, t: &mut Tape) -> String {
    let mut toks = lex(base);
    if toks.is_empty() {
        return any_token(t);
    }
    let n = 1 + t.choose(3);
    for _ in 0..n {
        if toks.is_empty() {
            break;
        }
        let i = pick_tok(&toks, t);
        match t.choose(8) {
            0 => {
                toks.remove(i);
            }
            1 => {
                let x = toks[i].clone();
                toks.insert(i, x);
            }
            2 => {
                let j = pick_tok(&toks, t);
                toks.swap(i, j);
            }
            3 => {
                toks[i] = any_token(t);
            }
            4 => {
                let o = lex(other);
                if !o.is_empty() {
                    let j = pick_tok(&o, t);
                    toks[i] = o[j].clone();
                }
            }
            5 => {
                let x = any_token(t);
                toks.insert(i, x);
                toks.insert(i + 1, " ".to_string());
            }
            6 => {
                // delete a run of tokens
                let len = 1 + t.choose(6);
                let end = (i + len).min(toks.len());
                toks.drain(i..end);
            }
            _ => {
                // case / suffix change of a word
                let w = toks[i].clone();
                toks[i] = match t.choose(4) {
                    0 => w.to_lowercase(),
                    1 => format!("{}{}", w, t.pick(&["%", "$", "!", "#", "&"])),
                    2 => w.trim_end_matches(|c| "%&!#$".contains(c)).to_string(),
                    _ => format!("{}{}", w, w),
                };
            }
        }
    }
    toks.concat()
}

fn mutate_bytes(base: &str, t: &mut Tape) -> String {
    let mut b: Vec<u8> = base.as_bytes().to_vec();
    let n = 1 + t.choose(3);
    for _ in 0..n {
        if b.is_empty() {
            b.push(t.range(0, 255) as u8);
            continue;
        }
        let i = t.choose(b.len());
        match t.choose(6) {
            0 => {
                b.remove(i);
            }
            1 => {
                let x = b[i];
                b.insert(i, x);
            }
            2 => {
                let j = t.choose(b.len());
                b.swap(i, j);
            }
            3 => {
                b[i] = t.range(0, 255) as u8;
            }
            4 => {
                let x = *t.pick(&[b' ', b'\n', b'\r', b'"', b'\'', b':', b'(', b')', b',', b'$', b'%', b'.', b'=', b'0', b'A', 0xc3, 0xff, 0x00]);
                b.insert(i, x);
            }
            _ => {
                b[i] ^= 1 << t.choose(8);
            }
        }
    }
    String::from_utf8_lossy(&b).to_string()
}

fn char_cut(s: &str, t: &mut Tape, at_line: bool) -> usize {
    let n = s.chars().count();
    let k = t.choose(n + 1);
    let mut idx = s.char_indices().nth(k).map(|(i, _)| i).unwrap_or(s.len());
    if at_line {
        // move forward to the next line start
        if let Some(off) = s[idx..].find('\n') {
            idx += off + 1;
        } else {
            idx = s.len();
        }
    }
    idx
}

fn splice(a: &str, b: &str, t: &mut Tape) -> String {
    let at_line = t.chance(1, 2);
    let i = char_cut(a, t, at_line);
    let j = char_cut(b, t, at_line);
    format!("{}{}", &a[..i], &b[j..])
}

// ---------------------------------------------------------------------------
// source (d): deep nesting (<= 300 levels)
// ---------------------------------------------------------------------------

const DEEP_KINDS: &[&str] = &[
    "parens",
    "parens-unclosed",
    "parens-print",
    "if-block",
    "if-block-unclosed",
    "if-else-block",
    "if-single-line",
    "for",
    "for-unclosed",
    "for-same-counter",
    "while",
    "do-loop",
    "select-case",
    "mixed-blocks",
    "not-chain",
    "minus-chain",
    "minus-chain-nospace",
    "minus-parens",
    "array-subscripts",
    "undeclared-call",
    "function-calls",
    "builtin-calls",
    "builtin-calls-unclosed",
    "binary-chain",
    "and-chain",
    "compare-chain",
    "concat-parens",
    "elseif-chain",
    "sub-arg-parens",
    "dim-bound-parens",
    "case-parens",
];

fn rep(s: &str, n: usize) -> String {
    s.repeat(n)
}

fn deep_text(kind: &str, d: usize) -> String {
    match kind {
        "parens" => format!("X = {}1{}\n", rep("(", d), rep(")", d)),
        "parens-unclosed" => format!("X = {}1", rep("(", d)),
        "parens-print" => format!("PRINT {}1 + 1{} ; 2\n", rep("(", d), rep(")", d)),
        "if-block" => format!("{}PRINT 1\n{}", rep("IF X THEN\n", d), rep("END IF\n", d)),
        "if-block-unclosed" => format!("{}PRINT 1\n{}", rep("IF X THEN\n", d), rep("END IF\n", d / 2)),
        "if-else-block" => format!("{}PRINT 1\n{}", rep("IF X THEN\nPRINT 0\nELSE\n", d), rep("END IF\n", d)),
        "if-single-line" => format!("{}PRINT 1\n", rep("IF X THEN ", d)),
        "for" => {
            let mut s = String::new();
            for i in 0..d {
                s.push_str(&format!("FOR I{} = 1 TO 2\n", i));
            }
            s.push_str("PRINT 1\n");
            for i in (0..d).rev() {
                s.push_str(&format!("NEXT I{}\n", i));
            }
            s
        }
        "for-unclosed" => {
            let mut s = String::new();
            for i in 0..d {
                s.push_str(&format!("FOR I{} = 1 TO 2\n", i));
            }
            s.push_str("PRINT 1\nNEXT\n");
            s
        }
        "for-same-counter" => format!("{}PRINT 1\n{}", rep("FOR I = 1 TO 2\n", d), rep("NEXT\n", d)),
        "while" => format!("{}PRINT 1\n{}", rep("WHILE X < 1\n", d), rep("WEND\n", d)),
        "do-loop" => format!("{}PRINT 1\n{}", rep("DO WHILE X < 1\n", d), rep("LOOP\n", d)),
        "select-case" => format!("{}PRINT 1\n{}", rep("SELECT CASE X\nCASE 1\n", d), rep("END SELECT\n", d)),
        "mixed-blocks" => {
            let open = ["IF X THEN\n", "FOR I = 1 TO 2\n", "WHILE X < 1\n", "DO\n", "SELECT CASE X\nCASE ELSE\n"];
            let close = ["END IF\n", "NEXT\n", "WEND\n", "LOOP UNTIL X\n", "END SELECT\n"];
            let mut s = String::new();
            for i in 0..d {
                s.push_str(open[i % 5]);
            }
            s.push_str("PRINT 1\n");
            for i in (0..d).rev() {
                s.push_str(close[i % 5]);
            }
            s
        }
        "not-chain" => format!("X = {}1\n", rep("NOT ", d)),
        "minus-chain" => format!("X = {}1\n", rep("- ", d)),
        "minus-chain-nospace" => format!("X = {}1\n", rep("-", d)),
        "minus-parens" => format!("X = {}1{}\n", rep("-(", d), rep(")", d)),
        "array-subscripts" => format!("DIM A(10)\nX = {}1{}\n", rep("A(", d), rep(")", d)),
        "undeclared-call" => format!("X = {}1{}\n", rep("G(", d), rep(")", d)),
        "function-calls" => format!("DECLARE FUNCTION F(N)\nX = {}1{}\nFUNCTION F(N)\nF = N\nEND FUNCTION\n", rep("F(", d), rep(")", d)),
        "builtin-calls" => format!("X$ = {}\"a\"{}\n", rep("LTRIM$(", d), rep(")", d)),
        "builtin-calls-unclosed" => format!("X = {}\"a\"", rep("LEN(", d)),
        "binary-chain" => format!("X = 1{}\n", rep(" + 1", d)),
        "and-chain" => format!("X = 1{}\n", rep(" AND 1", d)),
        "compare-chain" => format!("X = 1{}\n", rep(" * 2 - 3 < 4 OR 5", d / 4 + 1)),
        "concat-parens" => format!("X$ = {}\"a\"{}\n", rep("(\"b\" + ", d), rep(")", d)),
        "elseif-chain" => format!("IF X = 0 THEN\nPRINT 0\n{}END IF\n", (1..=d).map(|i| format!("ELSEIF X = {} THEN\nPRINT {}\n", i, i)).collect::<String>()),
        "sub-arg-parens" => format!("S {}1{}, 2\nSUB S(A, B)\nEND SUB\n", rep("(", d), rep(")", d)),
        "dim-bound-parens" => format!("DIM A({}1{} TO 5)\n", rep("(", d), rep(")", d)),
        "case-parens" => format!("SELECT CASE X\nCASE {}1{}\nPRINT 1\nEND SELECT\n", rep("(", d), rep(")", d)),
        _ => String::new(),
    }
}

// ---------------------------------------------------------------------------
// source (e): grammar-directed FORMS — well-formed statements whose sub-forms are
// combined systematically
//   (e1) slot filler: every expression / l-value slot of every statement and built-in
//        form x every operand shape (literal, variable, CONST, array element of every
//        declaration style, user function call, undeclared name(args), record field,
//        element field, every built-in function, operators over calls, wrongly typed
//        operands), enumerated completely in the main module; every shape (also nested
//        ones) x {main, SUB body, FUNCTION body} in ten generic slots; plus a random mix
//        (several statements, nested shapes, all slots at once, inside block bodies);
//   (e2) declaration soup: DIM / REDIM / CONST / implicit definitions / FOR counters /
//        parameters of the SAME name in every style (bare, every qualifier, AS every
//        type), scalar or array, with or without SHARED, same or different number of
//        dimensions, in the main module and in subprograms: every ordered PAIR is
//        enumerated, longer random sequences come from a tape.
// The oracle is check_text, unchanged: nothing about acceptance is asserted.
// ---------------------------------------------------------------------------

#[derive(Clone, Copy, PartialEq, Eq, Debug)]
enum Sl {
    /// numeric expression
    N,
    /// string expression
    S,
    /// numeric place (assignable)
    L,
    /// string place
    LS,
}

/// Entities the fillers and templates may mention: (identifier word, prologue line, implementation).
/// Only the entities a program mentions are declared (short programs, readable witnesses).
const ENTITIES: &[(&str, &str, &str)] = &[
    ("Fn", "DECLARE FUNCTION Fn! (N!)", "FUNCTION Fn! (N!)\nFn! = N! + 1\nEND FUNCTION"),
    ("Fs", "DECLARE FUNCTION Fs$ (N!)", "FUNCTION Fs$ (N!)\nFs$ = STR$(N!)\nEND FUNCTION"),
    ("Fz", "DECLARE FUNCTION Fz!", "FUNCTION Fz!\nFz! = 1\nEND FUNCTION"),
    ("Sb", "DECLARE SUB Sb (N!, M$)", "SUB Sb (N!, M$)\nEND SUB"),
    ("Kn", "CONST Kn = 3", ""),
    ("Ks", "CONST Ks$ = \"k\"", ""),
    ("An", "DIM SHARED An(1 TO 9)", ""),
    ("Ai", "DIM SHARED Ai%(9)", ""),
    ("A2", "DIM SHARED A2(3, 3)", ""),
    ("Ax", "DIM SHARED Ax(1 TO 9) AS INTEGER", ""),
    ("As", "DIM SHARED As$(9)", ""),
    ("Ay", "DIM SHARED Ay(9) AS STRING", ""),
    ("Dn", "REDIM SHARED Dn(9)", ""),
    ("R", "DIM SHARED R AS Card", ""),
    ("Rs", "DIM SHARED Rs(1 TO 3) AS Card", ""),
    ("Xl", "DIM SHARED Xl AS LONG", ""),
    ("Xf", "DIM SHARED Xf AS STRING * 4", ""),
];
const CARD_TYPE: &str = "TYPE Card\nValue AS INTEGER\nSuit AS STRING * 5\nEND TYPE";

/// Operand shapes. `<n>` / `<s>` are holes for a numeric / string operand. Labels starting with
/// "op-" are operators (their holes get call-like operands in the matrix), labels starting with
/// "x-" are deliberately of the other type or not a value at all.
const SHAPES_N: &[(&str, &str)] = &[
    ("lit", "2"),
    ("lit-float", "2.5"),
    ("lit-hex", "&H1F"),
    ("lit-long", "100000"),
    ("var", "V"),
    ("var%", "V%"),
    ("var#", "V#"),
    ("var-ext", "Xl"),
    ("const", "Kn"),
    ("elem", "An(<n>)"),
    ("elem%", "Ai%(<n>)"),
    ("elem-2d", "A2(<n>, <n>)"),
    ("elem-ext", "Ax(<n>)"),
    ("elem-dyn", "Dn(<n>)"),
    ("call", "Fn(<n>)"),
    ("call-qualified", "Fn!(<n>)"),
    ("call-0", "Fz"),
    ("undef", "Undef(<n>)"),
    ("undef%", "Undef%(<n>, <n>)"),
    ("field", "R.Value"),
    ("elem-field", "Rs(<n>).Value"),
    ("len", "LEN(<s>)"),
    ("len-var", "LEN(V%)"),
    ("val", "VAL(<s>)"),
    ("instr", "INSTR(<s>, <s>)"),
    ("instr3", "INSTR(<n>, <s>, <s>)"),
    ("ubound", "UBOUND(An)"),
    ("lbound-dim", "LBOUND(A2, <n>)"),
    ("eof", "EOF(<n>)"),
    ("err", "ERR"),
    ("varptr", "VARPTR(An(<n>))"),
    ("varseg", "VARSEG(V)"),
    ("cvd", "CVD(MKD$(<n>))"),
    ("peek", "PEEK(<n>)"),
    ("op-paren", "(<n>)"),
    ("op-neg", "-<n>"),
    ("op-not", "NOT <n>"),
    ("op-add", "<n> + <n>"),
    ("op-mul", "<n> * <n>"),
    ("op-div", "<n> / <n>"),
    ("op-mod", "<n> MOD <n>"),
    ("op-and", "<n> AND <n>"),
    ("op-lt", "<n> < <n>"),
    ("op-eq-str", "<s> = <s>"),
    ("x-str-lit", "\"a\""),
    ("x-str-elem", "As$(<n>)"),
    ("x-str-call", "Fs$(<n>)"),
    ("x-record", "R"),
    ("x-record-elem", "Rs(<n>)"),
    ("x-array-name", "An"),
    ("x-array-parens", "An()"),
    ("x-call-no-args", "Fn"),
    ("x-call-too-many", "Fn(<n>, <n>)"),
    ("x-elem-too-many", "An(<n>, <n>)"),
    ("x-field-unknown", "R.Nope"),
    ("x-sub-name", "Sb(<n>)"),
];
const SHAPES_S: &[(&str, &str)] = &[
    ("lit", "\"a\""),
    ("lit-empty", "\"\""),
    ("var", "V$"),
    ("const", "Ks$"),
    ("var-fixed", "Xf"),
    ("elem", "As$(<n>)"),
    ("elem-ext", "Ay(<n>)"),
    ("call", "Fs$(<n>)"),
    ("undef", "UndefS$(<n>)"),
    ("field", "R.Suit"),
    ("elem-field", "Rs(<n>).Suit"),
    ("chr", "CHR$(<n>)"),
    ("str", "STR$(<n>)"),
    ("left", "LEFT$(<s>, <n>)"),
    ("right", "RIGHT$(<s>, <n>)"),
    ("mid", "MID$(<s>, <n>, <n>)"),
    ("mid2", "MID$(<s>, <n>)"),
    ("ucase", "UCASE$(<s>)"),
    ("lcase", "LCASE$(<s>)"),
    ("ltrim", "LTRIM$(<s>)"),
    ("rtrim", "RTRIM$(<s>)"),
    ("space", "SPACE$(<n>)"),
    ("string", "STRING$(<n>, <s>)"),
    ("string-code", "STRING$(<n>, <n>)"),
    ("mkd", "MKD$(<n>)"),
    ("environ", "ENVIRON$(<s>)"),
    ("op-paren", "(<s>)"),
    ("op-concat", "<s> + <s>"),
    ("x-num-lit", "2"),
    ("x-num-elem", "An(<n>)"),
    ("x-num-call", "Fn(<n>)"),
    ("x-record", "R"),
    ("x-array-name", "As$"),
    ("x-call-no-args", "Fs$"),
    ("x-field-unknown", "R.Nope"),
];
const SHAPES_L: &[(&str, &str)] = &[
    ("var", "V"),
    ("var%", "V%"),
    ("var&", "V&"),
    ("var#", "V#"),
    ("var-ext", "Xl"),
    ("elem", "An(<n>)"),
    ("elem%", "Ai%(<n>)"),
    ("elem-2d", "A2(<n>, <n>)"),
    ("elem-ext", "Ax(<n>)"),
    ("elem-dyn", "Dn(<n>)"),
    ("field", "R.Value"),
    ("elem-field", "Rs(<n>).Value"),
    ("undef", "Undef(<n>)"),
    ("x-const", "Kn"),
    ("x-call", "Fn(<n>)"),
    ("x-call-0", "Fz"),
    ("x-fn-name", "Fn"),
    ("x-record", "R"),
    ("x-array-name", "An"),
    ("x-array-parens", "An()"),
    ("x-str-var", "V$"),
    ("x-builtin", "LEN(V$)"),
    ("x-lit", "2"),
    ("x-paren", "(V)"),
];
const SHAPES_LS: &[(&str, &str)] = &[
    ("var", "V$"),
    ("var-fixed", "Xf"),
    ("elem", "As$(<n>)"),
    ("elem-ext", "Ay(<n>)"),
    ("field", "R.Suit"),
    ("elem-field", "Rs(<n>).Suit"),
    ("undef", "UndefS$(<n>)"),
    ("x-const", "Ks$"),
    ("x-call", "Fs$(<n>)"),
    ("x-fn-name", "Fs$"),
    ("x-num-var", "V"),
    ("x-builtin", "CHR$(65)"),
    ("x-lit", "\"a\""),
    ("x-array-parens", "As$()"),
];

fn shapes_of(sl: Sl) -> &'static [(&'static str, &'static str)] {
    match sl {
        Sl::N => SHAPES_N,
        Sl::S => SHAPES_S,
        Sl::L => SHAPES_L,
        Sl::LS => SHAPES_LS,
    }
}
fn slot_default(sl: Sl) -> &'static str {
    match sl {
        Sl::N => "1",
        Sl::S => "\"a\"",
        Sl::L => "V",
        Sl::LS => "V$",
    }
}

/// Call-like operands that go into the holes of operators and of the nested matrix.
const INNER_N: &[&str] = &["An(2)", "Fn(2)", "Undef(2)", "Rs(2).Value", "LEN(As$(2))"];
const INNER_S: &[&str] = &["As$(2)", "Fs$(2)", "R.Suit", "UndefS$(2)", "CHR$(An(2))"];

/// Fills the holes of `shape` from the two closures (called once per hole, left to right).
fn fill_holes(shape: &str, mut n: impl FnMut() -> String, mut s: impl FnMut() -> String) -> String {
    let mut out = String::new();
    let mut rest = shape;
    loop {
        let pn = rest.find("<n>");
        let ps = rest.find("<s>");
        let (p, is_n) = match (pn, ps) {
            (None, None) => {
                out.push_str(rest);
                return out;
            }
            (Some(a), None) => (a, true),
            (None, Some(b)) => (b, false),
            (Some(a), Some(b)) => if a < b { (a, true) } else { (b, false) },
        };
        out.push_str(&rest[..p]);
        let x = if is_n { n() } else { s() };
        out.push_str(&x);
        rest = &rest[p + 3..];
    }
}

/// The matrix rendering of a shape: plain shapes get literal operands, operators get call-like ones.
fn shape_plain(label: &str, shape: &str) -> String {
    if label.starts_with("op-") {
        let mut k = 0usize;
        let mut j = 0usize;
        fill_holes(
            shape,
            || {
                k += 1;
                INNER_N[(k - 1) % 2].to_string()
            },
            || {
                j += 1;
                INNER_S[(j - 1) % 2].to_string()
            },
        )
    } else {
        fill_holes(shape, || "2".to_string(), || "\"a\"".to_string())
    }
}

/// Statement and built-in forms with their slots: (name, text with {k} placeholders, slot kinds).
const TEMPLATES: &[(&str, &str, &[Sl])] = &[
    ("select/select-subject", "SELECT CASE {0}\nCASE 1\nPRINT 1\nEND SELECT", &[Sl::N]),
    ("select/select-subject-str", "SELECT CASE {0}\nCASE \"a\"\nPRINT 1\nCASE ELSE\nPRINT 2\nEND SELECT", &[Sl::S]),
    ("select/case-simple", "SELECT CASE V\nCASE {0}\nPRINT 1\nEND SELECT", &[Sl::N]),
    ("select/case-simple-str", "SELECT CASE V$\nCASE {0}\nPRINT 1\nEND SELECT", &[Sl::S]),
    ("select/case-range", "SELECT CASE V\nCASE {0} TO {1}\nPRINT 1\nCASE ELSE\nPRINT 2\nEND SELECT", &[Sl::N, Sl::N]),
    ("select/case-range-str", "SELECT CASE V$\nCASE {0} TO {1}\nPRINT 1\nEND SELECT", &[Sl::S, Sl::S]),
    ("select/case-is", "SELECT CASE V\nCASE IS >= {0}\nPRINT 1\nEND SELECT", &[Sl::N]),
    ("select/case-is-str", "SELECT CASE V$\nCASE IS < {0}\nPRINT 1\nEND SELECT", &[Sl::S]),
    ("select/case-list", "SELECT CASE V\nCASE {0}, {1}, 5 TO {2}, IS <> {3}\nPRINT 1\nEND SELECT", &[Sl::N, Sl::N, Sl::N, Sl::N]),
    ("select/case-second-block", "SELECT CASE V\nCASE 1\nPRINT 1\nCASE {0} TO {1}, {2}\nPRINT 2\nCASE ELSE\nPRINT 3\nEND SELECT", &[Sl::N, Sl::N, Sl::N]),
    ("select/case-body", "SELECT CASE V\nCASE 1\nPRINT {0}\nCASE ELSE\nV = {1}\nEND SELECT", &[Sl::N, Sl::N]),
    ("if/if-block", "IF {0} THEN\nPRINT 1\nELSEIF {1} THEN\nPRINT 2\nELSE\nPRINT 3\nEND IF", &[Sl::N, Sl::N]),
    ("if/if-single", "IF {0} THEN V = {1} ELSE V = {2}", &[Sl::N, Sl::N, Sl::N]),
    ("loop/for-bounds", "FOR I = {0} TO {1} STEP {2}\nPRINT I\nNEXT I", &[Sl::N, Sl::N, Sl::N]),
    ("loop/for-counter", "FOR {0} = 1 TO 2\nNEXT", &[Sl::L]),
    ("loop/for-next-counter", "FOR V = 1 TO 2\nNEXT {0}", &[Sl::L]),
    ("loop/while", "WHILE {0}\nV = V + 1\nWEND", &[Sl::N]),
    ("loop/do-while", "DO WHILE {0}\nV = V + 1\nLOOP", &[Sl::N]),
    ("loop/do-until", "DO UNTIL {0}\nLOOP", &[Sl::N]),
    ("loop/loop-while", "DO\nV = V + 1\nLOOP WHILE {0}", &[Sl::N]),
    ("loop/loop-until", "DO\nLOOP UNTIL {0}", &[Sl::N]),
    ("dim/dim-bounds", "DIM Z({0} TO {1})\nZ(1) = 1", &[Sl::N, Sl::N]),
    ("dim/dim-bounds-2d-ext", "DIM Z(1 TO {0}, {1}) AS INTEGER", &[Sl::N, Sl::N]),
    ("dim/dim-shared-bounds", "DIM SHARED Z$({0})", &[Sl::N]),
    ("dim/redim-bounds", "REDIM Dn({0} TO {1})", &[Sl::N, Sl::N]),
    ("dim/redim-new", "REDIM Z%({0}, {1})", &[Sl::N, Sl::N]),
    ("dim/redim-ext", "REDIM Z({0}) AS STRING", &[Sl::N]),
    ("dim/dim-string-len", "DIM Z AS STRING * {0}", &[Sl::N]),
    ("dim/dim-array-string-len", "DIM Z(3) AS STRING * {0}", &[Sl::N]),
    ("dim/type-string-len", "TYPE Tz\nF AS STRING * {0}\nEND TYPE", &[Sl::N]),
    ("const/const-num", "CONST Z = {0}\nPRINT Z", &[Sl::N]),
    ("const/const-str", "CONST Z$ = {0}\nPRINT Z$", &[Sl::S]),
    ("assign/assign-num", "V = {0}", &[Sl::N]),
    ("assign/assign-int", "V% = {0}", &[Sl::N]),
    ("assign/assign-str", "V$ = {0}", &[Sl::S]),
    ("assign/assign-place", "{0} = 1", &[Sl::L]),
    ("assign/assign-place-str", "{0} = \"a\"", &[Sl::LS]),
    ("assign/assign-elem", "An({0}) = {1}", &[Sl::N, Sl::N]),
    ("assign/assign-elem-2d", "A2({0}, {1}) = {2}", &[Sl::N, Sl::N, Sl::N]),
    ("assign/assign-elem-str", "As$({0}) = {1}", &[Sl::N, Sl::S]),
    ("assign/assign-field", "R.Value = {0}\nR.Suit = {1}", &[Sl::N, Sl::S]),
    ("assign/assign-elem-field", "Rs({0}).Value = {1}", &[Sl::N, Sl::N]),
    ("expr/index-in-expr", "V = An({0}) + A2({1}, {2})", &[Sl::N, Sl::N, Sl::N]),
    ("expr/binary", "V = {0} + {1} * {2}", &[Sl::N, Sl::N, Sl::N]),
    ("expr/compare", "V = {0} < {1}", &[Sl::N, Sl::N]),
    ("expr/compare-str", "V = {0} <= {1}", &[Sl::S, Sl::S]),
    ("expr/logic", "V = {0} OR NOT {1}", &[Sl::N, Sl::N]),
    ("expr/negate", "V = -{0}", &[Sl::N]),
    ("expr/paren", "V = ({0})", &[Sl::N]),
    ("expr/concat", "V$ = {0} + {1}", &[Sl::S, Sl::S]),
    ("print/print", "PRINT {0}; {1}, {2}", &[Sl::N, Sl::S, Sl::N]),
    ("print/print-trailing", "PRINT {0};", &[Sl::S]),
    ("print/lprint", "LPRINT {0}, {1}", &[Sl::N, Sl::S]),
    ("print/print-using", "PRINT USING {0}; {1}; {2}", &[Sl::S, Sl::N, Sl::N]),
    ("print/lprint-using", "LPRINT USING {0}; {1}", &[Sl::S, Sl::S]),
    ("print/print-file", "PRINT #1, {0}; {1}", &[Sl::N, Sl::S]),
    ("print/print-file-using", "PRINT #1, USING {0}; {1}", &[Sl::S, Sl::N]),
    ("call/sub-call", "Sb {0}, {1}", &[Sl::N, Sl::S]),
    ("call/sub-call-paren", "CALL Sb({0}, {1})", &[Sl::N, Sl::S]),
    ("call/sub-call-by-ref", "Sb {0}, {1}", &[Sl::L, Sl::LS]),
    ("call/fn-arg", "V = Fn({0})", &[Sl::N]),
    ("call/fn-arg-by-ref", "V = Fn({0})", &[Sl::L]),
    ("call/fn-arg-str", "V$ = Fs$({0})", &[Sl::N]),
    ("call/fn-result", "Hf! = {0}", &[Sl::N]),
    ("screen/locate", "LOCATE {0}, {1}", &[Sl::N, Sl::N]),
    ("screen/locate-column", "LOCATE , {0}", &[Sl::N]),
    ("screen/color", "COLOR {0}, {1}", &[Sl::N, Sl::N]),
    ("screen/width", "WIDTH {0}, {1}", &[Sl::N, Sl::N]),
    ("screen/view-print", "VIEW PRINT {0} TO {1}", &[Sl::N, Sl::N]),
    ("screen/def-seg", "DEF SEG = {0}", &[Sl::N]),
    ("screen/poke", "POKE {0}, {1}", &[Sl::N, Sl::N]),
    ("screen/screen", "SCREEN {0}", &[Sl::N]),
    ("file/open", "OPEN {0} FOR INPUT AS {1}", &[Sl::S, Sl::N]),
    ("file/open-len", "OPEN {0} FOR RANDOM AS #1 LEN = {1}", &[Sl::S, Sl::N]),
    ("file/open-access", "OPEN {0} FOR APPEND ACCESS READ AS {1}", &[Sl::S, Sl::N]),
    ("file/close", "CLOSE {0}, {1}", &[Sl::N, Sl::N]),
    ("file/get", "GET #1, {0}", &[Sl::N]),
    ("file/put", "PUT #2, {0}", &[Sl::N]),
    ("file/field", "FIELD #1, {0} AS {1}, 2 AS W$", &[Sl::N, Sl::LS]),
    ("file/lset", "LSET {0} = {1}", &[Sl::LS, Sl::S]),
    ("file/name", "NAME {0} AS {1}", &[Sl::S, Sl::S]),
    ("file/kill", "KILL {0}", &[Sl::S]),
    ("file/environ", "ENVIRON {0}", &[Sl::S]),
    ("input/input", "INPUT {0}, {1}", &[Sl::L, Sl::LS]),
    ("input/input-file", "INPUT #1, {0}, {1}", &[Sl::L, Sl::LS]),
    ("input/line-input", "LINE INPUT {0}", &[Sl::LS]),
    ("input/line-input-file", "LINE INPUT #1, {0}", &[Sl::LS]),
    ("input/read", "READ {0}, {1}", &[Sl::L, Sl::LS]),
    ("builtin-fn/chr", "V$ = CHR$({0})", &[Sl::N]),
    ("builtin-fn/cvd", "V# = CVD({0})", &[Sl::S]),
    ("builtin-fn/environ-fn", "V$ = ENVIRON$({0})", &[Sl::S]),
    ("builtin-fn/eof", "V = EOF({0})", &[Sl::N]),
    ("builtin-fn/instr3", "V = INSTR({0}, {1}, {2})", &[Sl::N, Sl::S, Sl::S]),
    ("builtin-fn/instr2", "V = INSTR({0}, {1})", &[Sl::S, Sl::S]),
    ("builtin-fn/lbound", "V = LBOUND(An, {0})", &[Sl::N]),
    ("builtin-fn/ubound", "V = UBOUND(A2, {0})", &[Sl::N]),
    ("builtin-fn/bound-of", "V = UBOUND({0}) - LBOUND({1})", &[Sl::L, Sl::LS]),
    ("builtin-fn/lcase", "V$ = LCASE$({0})", &[Sl::S]),
    ("builtin-fn/ucase", "V$ = UCASE$({0})", &[Sl::S]),
    ("builtin-fn/ltrim", "V$ = LTRIM$({0})", &[Sl::S]),
    ("builtin-fn/rtrim", "V$ = RTRIM$({0})", &[Sl::S]),
    ("builtin-fn/left", "V$ = LEFT$({0}, {1})", &[Sl::S, Sl::N]),
    ("builtin-fn/right", "V$ = RIGHT$({0}, {1})", &[Sl::S, Sl::N]),
    ("builtin-fn/len-str", "V = LEN({0})", &[Sl::S]),
    ("builtin-fn/len-var", "V = LEN({0})", &[Sl::L]),
    ("builtin-fn/mid3", "V$ = MID$({0}, {1}, {2})", &[Sl::S, Sl::N, Sl::N]),
    ("builtin-fn/mid2", "V$ = MID$({0}, {1})", &[Sl::S, Sl::N]),
    ("builtin-fn/mkd", "V$ = MKD$({0})", &[Sl::N]),
    ("builtin-fn/peek", "V = PEEK({0})", &[Sl::N]),
    ("builtin-fn/space", "V$ = SPACE$({0})", &[Sl::N]),
    ("builtin-fn/str", "V$ = STR$({0})", &[Sl::N]),
    ("builtin-fn/string-code", "V$ = STRING$({0}, {1})", &[Sl::N, Sl::N]),
    ("builtin-fn/string-str", "V$ = STRING$({0}, {1})", &[Sl::N, Sl::S]),
    ("builtin-fn/val", "V = VAL({0})", &[Sl::S]),
    ("builtin-fn/varptr", "V = VARPTR({0})", &[Sl::L]),
    ("builtin-fn/varseg", "V = VARSEG({0})", &[Sl::LS]),
];

/// Templates that also get the nested (depth 2) shapes in the enumerated part.
const NESTED_TEMPLATES: &[&str] = &["assign/assign-num", "assign/assign-str", "print/print", "select/case-simple", "select/case-simple-str", "if/if-block", "call/sub-call", "dim/dim-bounds", "assign/assign-elem", "loop/for-bounds"];

const FORM_CONTEXTS: &[&str] = &["main", "sub", "function"];

/// Identifier words of a text (letters and digits; qualifiers and dots separate words).
fn words(text: &str) -> BTreeSet<&str> {
    text.split(|c: char| !c.is_ascii_alphanumeric()).filter(|w| !w.is_empty()).collect()
}

/// Wraps the statement(s) under test into a complete program: the declarations of the entities it
/// mentions, the statement in the main module / a SUB / a FUNCTION, the implementations.
fn form_program(stmts: &str, ctx: usize) -> String {
    let ws = words(stmts);
    let needs_card = ws.contains("R") || ws.contains("Rs") || ws.contains("Card");
    let mut head = String::new();
    let mut tail = String::new();
    let mentioned: Vec<&(&str, &str, &str)> = ENTITIES.iter().filter(|(w, _, _)| ws.contains(w)).collect();
    // DECLAREs first, then the TYPE, then CONST / DIM
    for (_, d, imp) in mentioned.iter().filter(|(_, d, _)| d.starts_with("DECLARE")) {
        head.push_str(d);
        head.push('\n');
        tail.push_str(imp);
        tail.push('\n');
    }
    if needs_card {
        head.push_str(CARD_TYPE);
        head.push('\n');
    }
    for (_, d, _) in mentioned.iter().filter(|(_, d, _)| !d.starts_with("DECLARE")) {
        head.push_str(d);
        head.push('\n');
    }
    match ctx {
        0 => format!("{}{}\n{}", head, stmts, tail),
        1 => format!("{}Host\n{}SUB Host\n{}\nEND SUB\n", head, tail, stmts),
        _ => format!("{}V = Hf!\n{}FUNCTION Hf!\n{}\nHf! = 1\nEND FUNCTION\n", head, tail, stmts),
    }
}

fn render_template(text: &str, fills: &[String]) -> String {
    let mut s = text.to_string();
    for (k, f) in fills.iter().enumerate() {
        s = s.replace(&format!("{{{}}}", k), f);
    }
    s
}

/// The enumerated slot x shape x context space. Calls `f(index, template, slot, shape label, context, text)`.
fn slot_matrix(mut f: impl FnMut(u64, &str, usize, &str, usize, String) -> bool) {
    let mut idx = 0u64;
    for (name, text, slots) in TEMPLATES {
        for (k, sl) in slots.iter().enumerate() {
            let mut variants: Vec<(String, String)> = shapes_of(*sl).iter().map(|(l, s)| (l.to_string(), shape_plain(l, s))).collect();
            let generic = NESTED_TEMPLATES.contains(name);
            if generic {
                for (l, s) in shapes_of(*sl) {
                    if l.starts_with("op-") || !(s.contains("<n>") || s.contains("<s>")) {
                        continue;
                    }
                    for (j, inner) in INNER_N.iter().enumerate() {
                        let inner_s = INNER_S[j % INNER_S.len()];
                        variants.push((format!("{}<{}", l, j), fill_holes(s, || inner.to_string(), || inner_s.to_string())));
                    }
                }
            }
            for (label, operand) in variants {
                for ctx in 0..FORM_CONTEXTS.len() {
                    // what a slot does with its operand does not depend on the scope, what an operand resolves to does:
                    // every slot x shape in the main module, every shape x scope in the generic slots
                    if ctx > 0 && (!generic || label.contains('<')) {
                        continue;
                    }
                    idx += 1;
                    let fills: Vec<String> = slots.iter().enumerate().map(|(j, other)| if j == k { operand.clone() } else { slot_default(*other).to_string() }).collect();
                    let program = form_program(&render_template(text, &fills), ctx);
                    if !f(idx, name, k, &label, ctx, program) {
                        return;
                    }
                }
            }
        }
    }
}

/// Random operand of kind `sl` with nesting depth <= d (0 on an exhausted tape: the first, plain shape).
fn mix_operand(t: &mut Tape, sl: Sl, d: u32) -> String {
    let table = shapes_of(sl);
    // wrongly typed shapes are the minority
    let mut i = t.choose(table.len());
    if table[i].0.starts_with("x-") && !t.chance(1, 4) {
        i = t.choose(table.len());
    }
    let (_, shape) = table[i];
    if d == 0 {
        if shape.contains('<') {
            return fill_holes(shape, || "2".to_string(), || "\"a\"".to_string());
        }
        return shape.to_string();
    }
    let mut rest = shape;
    let mut out = String::new();
    loop {
        let pn = rest.find("<n>");
        let ps = rest.find("<s>");
        let (p, is_n) = match (pn, ps) {
            (None, None) => break,
            (Some(a), None) => (a, true),
            (None, Some(b)) => (b, false),
            (Some(a), Some(b)) => if a < b { (a, true) } else { (b, false) },
        };
        out.push_str(&rest[..p]);
        let x = if t.chance(1, 3) { if is_n { "2".to_string() } else { "\"a\"".to_string() } } else { mix_operand(t, if is_n { Sl::N } else { Sl::S }, d - 1) };
        out.push_str(&x);
        rest = &rest[p + 3..];
    }
    out.push_str(rest);
    out
}

/// (e1, random part) 1..3 statements, every slot filled with a random (nested) operand.
fn gen_slot_mix(t: &mut Tape) -> (String, Vec<&'static str>) {
    let ctx = t.choose(FORM_CONTEXTS.len());
    let n = t.range(1, 3);
    let mut stmts: Vec<String> = vec![];
    let mut used = vec![];
    for _ in 0..n {
        let (name, text, slots) = TEMPLATES[t.choose(TEMPLATES.len())];
        used.push(name);
        let fills: Vec<String> = slots.iter().map(|sl| if t.chance(1, 4) { slot_default(*sl).to_string() } else { mix_operand(t, *sl, 2) }).collect();
        stmts.push(render_template(text, &fills));
    }
    // sometimes inside the body of a block
    let body = stmts.join("\n");
    let body = match t.choose(12) {
        7 => format!("IF V THEN\n{}\nELSE\n{}\nEND IF", body, stmts[0]),
        8 => format!("FOR I = 1 TO 2\n{}\nNEXT", body),
        9 => format!("SELECT CASE V\nCASE 1\n{}\nCASE ELSE\n{}\nEND SELECT", body, stmts[0]),
        10 => format!("WHILE V < 1\n{}\nWEND", body),
        11 => format!("DO\n{}\nLOOP UNTIL V", body),
        _ => body,
    };
    (form_program(&body, ctx), used)
}

// ----- (e2) declarations of the same name -----

const QUALS: &[&str] = &["", "%", "&", "!", "#", "$"];
const AS_TYPES: &[&str] = &["INTEGER", "LONG", "SINGLE", "DOUBLE", "STRING", "STRING * 5", "Card"];

/// One way of introducing (or re-introducing) the name `A`.
#[derive(Clone)]
struct Decl {
    /// form kind for the histogram
    kind: &'static str,
    text: String,
    shared: bool,
    /// the name as this form spells it in later uses (with its qualifier, if any)
    spelled: String,
    array: bool,
}

fn lit_for(q: &str) -> &'static str {
    if q == "$" { "\"k\"" } else { "1" }
}

const DECL_KINDS: &[&str] = &["dim-compact", "dim-extended", "dim-array-compact", "dim-array-extended", "redim-compact", "redim-extended", "const", "implicit-assign", "implicit-element", "for-counter"];

/// One declaration form of `name`: `kind` is one of DECL_KINDS, `q` a qualifier (compact forms),
/// `ty` an AS type (extended forms), `dims` the dimension text (array forms).
fn one_decl(name: &str, kind: &'static str, q: &str, ty: &str, dims: &str, shared: bool) -> Decl {
    let sh = if shared { " SHARED" } else { "" };
    let compact = format!("{}{}", name, q);
    match kind {
        "dim-compact" => Decl { kind: if shared { "dim-shared-compact" } else { kind }, text: format!("DIM{} {}", sh, compact), shared, spelled: compact, array: false },
        "dim-extended" => Decl { kind: if shared { "dim-shared-extended" } else { kind }, text: format!("DIM{} {} AS {}", sh, name, ty), shared, spelled: name.to_string(), array: false },
        "dim-array-compact" => Decl { kind: if shared { "dim-shared-array-compact" } else { kind }, text: format!("DIM{} {}({})", sh, compact, dims), shared, spelled: compact, array: true },
        "dim-array-extended" => Decl { kind: if shared { "dim-shared-array-extended" } else { kind }, text: format!("DIM{} {}({}) AS {}", sh, name, dims, ty), shared, spelled: name.to_string(), array: true },
        "redim-compact" => Decl { kind: if shared { "redim-shared-compact" } else { kind }, text: format!("REDIM{} {}({})", sh, compact, dims), shared, spelled: compact, array: true },
        "redim-extended" => Decl { kind: if shared { "redim-shared-extended" } else { kind }, text: format!("REDIM{} {}({}) AS {}", sh, name, dims, ty), shared, spelled: name.to_string(), array: true },
        "const" => Decl { kind, text: format!("CONST {} = {}", compact, lit_for(q)), shared: true, spelled: compact, array: false },
        "implicit-assign" => Decl { kind, text: format!("{} = {}", compact, lit_for(q)), shared: false, spelled: compact, array: false },
        "implicit-element" => Decl { kind, text: format!("{}(1) = {}", compact, lit_for(q)), shared: false, spelled: compact, array: true },
        _ => {
            // a FOR counter cannot be a string
            let q = if q == "$" { "" } else { q };
            Decl { kind: "for-counter", text: format!("FOR {}{} = 1 TO 2\nNEXT", name, q), shared: false, spelled: format!("{}{}", name, q), array: false }
        }
    }
}

/// All single-name declaration forms. `dims` lists the dimension texts used for array forms.
fn decl_forms(name: &str, dims: &[&str], with_shared: bool) -> Vec<Decl> {
    let mut v = vec![];
    let shared_opts: &[bool] = if with_shared { &[false, true] } else { &[false] };
    for kind in DECL_KINDS {
        let declares = kind.starts_with("dim") || kind.starts_with("redim");
        let array = kind.contains("array") || kind.starts_with("redim");
        let extended = kind.ends_with("extended");
        for &sh in if declares { shared_opts } else { &[false] } {
            for d in if array { dims } else { &dims[..1] } {
                if extended {
                    for ty in AS_TYPES {
                        v.push(one_decl(name, kind, "", ty, d, sh));
                    }
                } else {
                    for q in if *kind == "for-counter" { &QUALS[..5] } else { QUALS } {
                        v.push(one_decl(name, kind, q, "", d, sh));
                    }
                }
            }
        }
    }
    v
}

/// Parameter forms of the same name (the "first declaration" of a subprogram scope).
fn param_forms(name: &str) -> Vec<Decl> {
    let mut v = vec![];
    for q in QUALS {
        v.push(Decl { kind: "param-compact", text: format!("{}{}", name, q), shared: false, spelled: format!("{}{}", name, q), array: false });
        v.push(Decl { kind: "param-array-compact", text: format!("{}{}()", name, q), shared: false, spelled: format!("{}{}", name, q), array: true });
    }
    for ty in ["INTEGER", "LONG", "SINGLE", "DOUBLE", "STRING", "Card"] {
        v.push(Decl { kind: "param-extended", text: format!("{} AS {}", name, ty), shared: false, spelled: name.to_string(), array: false });
        v.push(Decl { kind: "param-array-extended", text: format!("{}() AS {}", name, ty), shared: false, spelled: name.to_string(), array: true });
    }
    v
}

/// A later use of the name, spelled as the last declaration spelled it.
fn decl_use(d: &Decl, k: usize) -> String {
    let n = &d.spelled;
    let bare = n.trim_end_matches(|c| "%&!#$".contains(c));
    match k % 8 {
        0 => String::new(),
        1 => format!("PRINT {}", n),
        2 => format!("PRINT {}(1)", n),
        3 => {
            if d.array { format!("{}(1) = {}(1)", n, n) } else { format!("{} = {}", n, n) }
        }
        4 => format!("PRINT {}", bare),
        5 => format!("PRINT UBOUND({})", bare),
        6 => format!("PRINT LEN({})", n),
        _ => format!("PRINT {}(1, 1)", bare),
    }
}

const PAIR_CONTEXTS: &[&str] = &["main+main", "main+sub", "sub+sub", "param+sub", "main+function"];

fn pair_program(first: &Decl, second: &Decl, ctx: usize, use_k: usize) -> String {
    let needs_card = first.text.contains("Card") || second.text.contains("Card");
    let head = if needs_card { format!("{}\n", CARD_TYPE) } else { String::new() };
    let u = decl_use(second, use_k);
    match ctx {
        0 => format!("{}{}\n{}\n{}\n", head, first.text, second.text, u),
        1 => format!("{}{}\nSUB Host\n{}\n{}\nEND SUB\n", head, first.text, second.text, u),
        2 => format!("{}SUB Host\n{}\n{}\n{}\nEND SUB\n", head, first.text, second.text, u),
        3 => format!("{}SUB Host ({})\n{}\n{}\nEND SUB\n", head, first.text, second.text, u),
        _ => format!("{}{}\nFUNCTION Hf!\n{}\n{}\nHf! = 1\nEND FUNCTION\n", head, first.text, second.text, u),
    }
}

/// The enumerated space of ordered pairs of declarations of the same name.
fn decl_pairs(mut f: impl FnMut(u64, &Decl, &Decl, usize, String) -> bool) {
    let dims: &[&str] = &["1 TO 5", "2, 3"];
    // the number of dimensions only matters between dynamic arrays: 2-D variants for plain REDIM forms only
    let keep = |d: &Decl| !(d.text.contains("2, 3") && (d.shared || d.kind.starts_with("dim")));
    let all: Vec<Decl> = decl_forms("A", dims, true).into_iter().filter(|d| keep(d)).collect();
    let local: Vec<Decl> = decl_forms("A", dims, false).into_iter().filter(|d| keep(d)).collect();
    let visible_in_sub: Vec<Decl> = all.iter().filter(|d| d.shared).cloned().collect();
    let params = param_forms("A");
    let mut idx = 0u64;
    for ctx in 0..PAIR_CONTEXTS.len() {
        let (firsts, seconds): (&[Decl], &[Decl]) = match ctx {
            0 => (&all, &all),
            1 => (&visible_in_sub, &local),
            2 => (&local, &local),
            3 => (&params, &local),
            _ => (&visible_in_sub, &local),
        };
        for (i, a) in firsts.iter().enumerate() {
            for (j, b) in seconds.iter().enumerate() {
                // main+sub and sub+sub are siblings of main+main, main+function one of main+sub: every second / fourth pair
                if ((ctx == 1 || ctx == 2) && (i + j) % 2 != 0) || (ctx == 4 && (i + j) % 4 != 0) {
                    continue;
                }
                // two SHARED declarations in a row add nothing over SHARED + plain and plain + SHARED
                if ctx == 0 && a.shared && b.shared && a.kind != "const" && b.kind != "const" {
                    continue;
                }
                idx += 1;
                // the second REDIM / DIM of a pair gets other bounds than the first (same count)
                let mut b2 = b.clone();
                b2.text = b2.text.replace("1 TO 5", "1 TO 8").replace("2, 3", "3, 4");
                let program = pair_program(a, &b2, ctx, i * 3 + j);
                if !f(idx, a, &b2, ctx, program) {
                    return;
                }
            }
        }
    }
}

/// Dimension texts by number of dimensions (index 0: one dimension ...).
const DIMS_BY_COUNT: &[&[&str]] = &[&["1 TO 5", "5", "K9", "V9", "0 TO 0", "-1 TO 1", "1 TO 8"], &["2, 3", "1 TO 2, 1 TO 3", "K9, 2"], &["1, 2, 3", "1 TO 2, 0 TO 1, 3"]];

/// (e2, random part) sequences of declarations and uses of one name (sometimes two), spread over the
/// main module, a SUB (possibly with the name as a parameter) and a FUNCTION (possibly OF that name).
/// A theme (style, qualifier / type, scalar or array, number of dimensions) keeps most events of one
/// program compatible with each other, so that long sequences survive; one event in four deviates freely.
fn gen_decl_soup(t: &mut Tape) -> (String, Vec<&'static str>) {
    let names: &[&str] = match t.choose(10) {
        8 => &["A", "B"],
        // a dotted name next to a (possibly record) variable of its first part
        9 => &["A", "A.B"],
        _ => &["A"],
    };
    let mut kinds: Vec<&'static str> = vec![];
    let theme_q = *t.pick(QUALS);
    let theme_ty = match theme_q {
        "%" => "INTEGER",
        "&" => "LONG",
        "#" => "DOUBLE",
        "$" => "STRING",
        _ => "SINGLE",
    };
    let theme_ty = if t.chance(1, 6) { *t.pick(AS_TYPES) } else { theme_ty };
    let theme_extended = t.chance(1, 2);
    let theme_array = !t.chance(1, 3);
    let theme_count = t.choose(3);
    let theme_dynamic = t.chance(2, 3);
    let theme_shared = t.chance(1, 2);
    // [main, subprogram]: has the themed name been declared in this scope (or is it visible there)?
    let mut declared = [false, false];
    let mut event = |t: &mut Tape, scope: usize| -> String {
        let name = *t.pick(names);
        if t.chance(1, 4) {
            // free event: any form, any qualifier / type / bounds
            let kind = *t.pick(DECL_KINDS);
            let q = *t.pick(QUALS);
            let ty = *t.pick(AS_TYPES);
            let count = t.choose(3);
            let dims = *t.pick(DIMS_BY_COUNT[count]);
            let shared = t.chance(1, 4);
            let d = one_decl(name, kind, q, ty, dims, shared);
            if t.chance(1, 4) {
                kinds.push("use-free");
                let k = 1 + t.choose(7);
                return decl_use(&d, k);
            }
            kinds.push(d.kind);
            return d.text;
        }
        let dims = *t.pick(DIMS_BY_COUNT[theme_count]);
        let shared = scope == 0 && theme_shared;
        let style = if theme_extended { "extended" } else { "compact" };
        let was_declared = declared[scope];
        let kind: &'static str = if theme_array {
            if !was_declared {
                match (theme_dynamic, theme_extended) {
                    (true, true) => "redim-extended",
                    (true, false) => "redim-compact",
                    (false, true) => "dim-array-extended",
                    (false, false) => "dim-array-compact",
                }
            } else {
                // dimension again in either spelling of the theme, or use an element
                *t.pick(&["redim-compact", "redim-extended", "implicit-element", "implicit-element", "use"])
            }
        } else if !was_declared && (theme_extended || t.chance(1, 2)) {
            if theme_extended { "dim-extended" } else { "dim-compact" }
        } else {
            *t.pick(&["implicit-assign", "for-counter", "use", "implicit-assign"])
        };
        let _ = style;
        // after the first declaration the name is spelled as the theme's style demands
        let q = if theme_extended && was_declared && !kind.starts_with("redim") { "" } else { theme_q };
        // REDIM of an extended name through the other spelling is the interesting sibling: keep both
        let kind = if was_declared && kind == "redim-compact" && theme_extended && t.chance(1, 2) { "redim-extended" } else if was_declared && kind == "redim-extended" && !theme_extended && t.chance(1, 2) { "redim-compact" } else { kind };
        declared[scope] = true;
        if scope == 0 && shared {
            declared[1] = true;
        }
        let d = one_decl(name, if kind == "use" { "implicit-assign" } else { kind }, q, theme_ty, dims, shared && (kind.starts_with("dim") || kind.starts_with("redim")) && (!was_declared || t.chance(1, 2)));
        if kind == "use" {
            kinds.push("use");
            let k = 1 + t.choose(7);
            let mut d = d;
            d.array = theme_array;
            return decl_use(&d, k);
        }
        if t.chance(1, 14) && (d.text.starts_with("DIM") || d.text.starts_with("REDIM")) {
            kinds.push("multi-dim");
            let q2 = *t.pick(QUALS);
            let b = one_decl(name, kind, q2, theme_ty, dims, false);
            let rest = b.text.trim_start_matches("REDIM ").trim_start_matches("DIM ").to_string();
            return format!("{}, {}", d.text, rest);
        }
        kinds.push(d.kind);
        d.text
    };
    let mut out = String::new();
    if t.chance(1, 8) {
        out.push_str(*t.pick(&["DEFINT A-Z\n", "DEFSTR A\n", "DEFLNG A-B\n", "DEFDBL A\n", "DEFSNG A-Z\n"]));
    }
    out.push_str(CARD_TYPE);
    out.push('\n');
    out.push_str("CONST K9 = 4\nV9 = 3\n");
    // 0: main module only, 1: + SUB, 2: + FUNCTION, 3: + a FUNCTION of the name itself
    let which = [0usize, 1, 2, 0, 1, 2, 1, 3][t.choose(8)];
    let n_main = if which == 0 { t.range(2, 5) } else { t.range(0, 3) };
    for _ in 0..n_main {
        let e = event(t, 0);
        out.push_str(&e);
        out.push('\n');
    }
    if which > 0 {
        let params = param_forms("A");
        let p = if t.chance(1, 4) {
            // a parameter of the theme, or any
            if t.chance(1, 2) {
                let q = if theme_extended { "" } else { theme_q };
                let as_ty = if theme_extended && theme_ty != "STRING * 5" { format!(" AS {}", theme_ty) } else { String::new() };
                format!(" (A{}{}{})", q, if theme_array { "()" } else { "" }, as_ty)
            } else {
                format!(" ({})", params[t.choose(params.len())].text)
            }
        } else {
            String::new()
        };
        let stat = if t.chance(1, 6) { " STATIC" } else { "" };
        let (open, close) = match which {
            1 => (format!("SUB Host{}{}", p, stat), "END SUB".to_string()),
            2 => (format!("FUNCTION Hf!{}{}", p, stat), "Hf! = 1\nEND FUNCTION".to_string()),
            _ => {
                // a function OF the name
                let q = *t.pick(QUALS);
                (format!("FUNCTION A{}{}{}", q, p, stat), format!("A{} = {}\nEND FUNCTION", q, lit_for(q)))
            }
        };
        out.push_str(&open);
        out.push_str("\nV9 = 3\n");
        let n_sub = t.range(1, 4);
        for _ in 0..n_sub {
            let e = event(t, 1);
            out.push_str(&e);
            out.push('\n');
        }
        out.push_str(&close);
        out.push('\n');
    }
    (out, kinds)
}

// ---------------------------------------------------------------------------
// the run
// ---------------------------------------------------------------------------

/// Quick tier: at most this many corpus programs per WORKER get the exhaustive
/// every-prefix truncation, and only programs of at most QUICK_PREFIX_MAX_CHARS chars.
const QUICK_PREFIX_PROGRAMS_PER_WORKER: usize = 24;
const QUICK_PREFIX_MAX_CHARS: usize = 400;

impl Prop for C07 {
    fn id(&self) -> &'static str {
        "C07"
    }
    fn rule(&self) -> &'static str {
        "Inputs: (a) random byte strings decoded lossily as UTF-8 (uniform, ASCII-biased, valid head + garbage, UTF-8 edge sequences); (b) token soups over the lexer's alphabet (all keywords, names with every type suffix, numbers, &H/&O literals, every operator/punctuation symbol, strings, comments, blanks/tabs, CR/LF/CRLF, non-ASCII) with category transitions, statement-shaped soups from a noisy grammar over a small name pool, and role/type-consistent programs (variables, arrays, CONSTs, SUBs, FUNCTIONs, TYPE records over the same 8 names) with optional role confusion, conflicting re-declarations and odd literals; (c) token- and byte-level mutations (delete, duplicate, swap, replace, insert, splice) of the repository's own accepted programs and EVERY character-boundary PREFIX of them (quick tier: the first 24 programs of at most 400 chars of each of the 16 shares, thorough: all); (d) nesting 10..300 levels of parentheses, blocks, unary chains, calls/subscripts; (e) grammar-directed forms: every expression / place slot of every statement and built-in form (SELECT CASE subject, simple / range / IS case items, IF, FOR bounds and counters, loops, DIM / REDIM bounds, string lengths, CONST, assignments, PRINT / USING / file forms, sub and function arguments, every built-in sub and function argument) filled with every operand shape (literal, variable, CONST, element of a compact / extended / dynamic / 2-D array, user function call, undeclared name(args), record field, built-in call, operators over calls, wrongly typed operands) in the main module, a SUB and a FUNCTION (enumerated) plus random multi-statement mixes with nested operands; every ordered pair of declarations of ONE name (DIM / REDIM compact and extended with every qualifier and AS type, scalar / 1-D / 2-D, SHARED or not, CONST, implicit definition, FOR counter, parameter) within and across the main module and subprograms (enumerated) plus random longer declaration sequences with uses, DEFtype and functions of that name. Each text is parsed and (if parsed) checked; the outcome must be a program or one error whose position is valid for the text by this module's own line splitter; panics, process death and CPU-watchdog hits are violations. A case is non-trivial when the text is rejected at a position other than (1,1) or accepted with >= 2 top-level statements; distinct by hash of the text."
    }
    fn assumptions(&self) -> Vec<&'static str> {
        vec![
            "columns count Unicode scalar values (as README: row/col per character), rows are ended by CR, LF or CRLF",
            "the LF of a CRLF pair may be counted in the same column as its CR or in the next one; both are accepted",
            "at the end of a text that ends with a line terminator both (next row, 1) and (same row, one past the terminator) are accepted as 'immediately at its end'",
            "a position one past the terminator of an inner line is treated as undetermined (discarded, counted)",
            "'bounded time' is enforced as 120 s of process CPU time per input (watchdog), nesting depth is kept <= 300; chains of binary operators are limited to 300 operands as well",
            "source texts are Rust Strings (invalid UTF-8 is replaced by U+FFFD before parsing, as String::from_utf8_lossy does)",
        ]
    }
    fn watchdog_ms(&self) -> u64 {
        120_000
    }
    fn death_is_violation(&self) -> bool {
        true
    }
    fn hang_is_violation(&self) -> bool {
        true
    }

    fn run(&self, sh: &mut Shard) {
        let tier = sh.tier;
        let verbose = std::env::var("C07_VERBOSE").is_ok();
        let mut t_prev = thread_cpu_us();
        let mut lap = |what: &str, sh: &Shard| {
            let now = thread_cpu_us();
            if verbose {
                eprintln!("C07 shard {}: {} took {} ms cpu ({} evaluations so far)", sh.shard, what, (now - t_prev) / 1000, sh.stats.evaluations);
            }
            t_prev = now;
        };

        // fixed edge cases of the position model (all shards would repeat them: shard 0 only)
        if sh.shard == 0 {
            for text in [
                "", " ", "\n", "\r", "\r\n", "\n\n", "\r\n\r\n", "\r\r", "\n\r", "PRINT (", "PRINT (\n", "PRINT (\r\n", "PRINT (\r", "PRINT 1\nPRINT (", "PRINT 1\r\nPRINT (\r\n", "é = (", "\"", "'", "PRINT \"é\" +", "é", "\u{feff}PRINT 1",
                "PRINT 1\u{2028}PRINT (", "X = 1 +\n", "X = 1 +\r\n\r\n", "IF X THEN\n", "FOR I = 1 TO 2\r", "SUB S\r\n", "A$ = 1\n", "PRINT 1\nA$ = 1", "PRINT 1\r\nA$ = 1\r\n", "\n\n\nNEXT", "\r\n\r\n\r\nNEXT\r\n",
            ] {
                let r = check_text(sh, "edge", text);
                if !sh.report(r) {
                    return;
                }
            }
        }

        // every statement of C11's fault catalogue (ill-formed statements of every family the checker knows) as a small program
        for (k, f) in crate::props::c11::CATALOGUE.iter().enumerate() {
            if !sh.mine(1_000_000 + k as u64) {
                continue;
            }
            let mut lines: Vec<String> = vec!["TYPE ZT".into(), "  ZA AS INTEGER".into(), "  ZS AS STRING * 4".into(), "END TYPE".into()];
            lines.extend(f.pre.iter().map(|p| p.to_string()));
            lines.push(f.text.to_string());
            for l in ["SUB ZSb (ZPA%, ZPB%)", "  PRINT ZPA%; ZPB%", "END SUB", "FUNCTION ZFn% (ZPA%, ZPB%)", "  ZFn% = ZPA% + ZPB%", "END FUNCTION"] {
                lines.push(l.to_string());
            }
            sh.class("catalogue-statement");
            let r = check_text(sh, "catalogue", &(lines.join("\n") + "\n"));
            if !sh.report(r) {
                return;
            }
        }

        // (d) deep nesting — enumerated, few
        let depths: &[usize] = match tier {
            Tier::Quick => &[10, 100, 300],
            Tier::Thorough => &[10, 20, 50, 100, 150, 200, 250, 300],
        };
        let mut idx = 0u64;
        for (ki, kind) in DEEP_KINDS.iter().enumerate() {
            for d in depths {
                idx += 1;
                let _ = ki;
                if !sh.mine(idx) {
                    continue;
                }
                let text = deep_text(kind, *d);
                sh.class(&format!("deep:{}", kind));
                let r = check_text(sh, "deep", &text);
                if !sh.report(r) {
                    return;
                }
            }
        }
        sh.exhaustive("deep nesting: every listed construct at every listed depth");

        // (d2) long flat repetitions: every list-like form with 0..=40 and some larger numbers of items / separators
        // (deep nesting is one axis, the LENGTH of a flat list - e.g. 33 commas in LOCATE - is the other)
        {
            let counts: Vec<usize> = (0..=40).chain([47, 63, 64, 65, 100, 127, 128, 129, 255, 256, 257, 300, 1000]).collect();
            let mut k = 0u64;
            for (name, make) in REPEAT_FORMS.iter() {
                for n in &counts {
                    k += 1;
                    if !sh.mine(k) {
                        continue;
                    }
                    let text = make(*n);
                    sh.class(&format!("repeat:{}", name));
                    let r = check_text(sh, "repeat", &text);
                    if !sh.report(r) {
                        return;
                    }
                }
            }
            sh.exhaustive("flat repetitions: every listed list-like form with every listed item count");
        }

        lap("edge+deep+repeat", sh);
        // (a) random bytes
        let n = sh.share(tier.pick(14_000, 200_000));
        sh.search(1, n, 8, 64, |sh, tape| {
            let mut t = Tape::new(tape);
            let (text, label) = gen_bytes(&mut t);
            sh.class(label);
            check_text(sh, "bytes", &text)
        });

        lap("bytes", sh);
        // (b1) token soup
        let n = sh.share(tier.pick(26_000, 350_000));
        sh.search(2, n, 8, 160, |sh, tape| {
            let mut t = Tape::new(tape);
            let text = gen_soup(&mut t);
            check_text(sh, "soup", &text)
        });

        lap("soup", sh);
        // (b2) statement-shaped soup
        let n = sh.share(tier.pick(36_000, 450_000));
        sh.search(3, n, 16, 400, |sh, tape| {
            let mut t = Tape::new(tape);
            let text = gen_stmts(&mut t);
            check_text(sh, "stmts", &text)
        });

        lap("stmts", sh);
        // (b3) role- and type-consistent programs
        let n = sh.share(tier.pick(24_000, 300_000));
        sh.search(7, n, 16, 600, |sh, tape| {
            let mut t = Tape::new(tape);
            let text = gen_program(&mut t);
            check_text(sh, "typed", &text)
        });

        lap("typed", sh);
        // (b4) the wide generator of C08 (whole statement and built-in repertoire, REDIM / REDIM SHARED, files, handlers,
        // planted ill-typed sub-expressions): here every program is an input of parse + check, accepted or not
        let n = sh.share(tier.pick(12_000, 200_000));
        sh.search(8, n, 60, 500, |sh, tape| {
            let mut t = Tape::new(tape);
            let mischief = *t.pick(&[0u32, 30, 80]);
            let used = t.used();
            let (text, _) = crate::props::c08::W::new(&tape[used.min(tape.len())..]).program(10, mischief);
            check_text(sh, "wide", &text)
        });

        lap("wide", sh);
        // (e1) slot filler: every slot of every statement form x every operand shape (enumerated)
        let mut stop = false;
        let mut n_slot_cases = 0u64;
        slot_matrix(|idx, name, _slot, label, ctx, text| {
            n_slot_cases = idx;
            if !sh.mine(idx) {
                return true;
            }
            sh.class(&format!("slot:{}", name.split('/').next().unwrap_or(name)));
            let l = label.split('<').next().unwrap_or(label);
            sh.class(&format!("{}:{}", if label.contains('<') { "shape-nested" } else { "shape" }, l));
            sh.class(&format!("form-context:{}", FORM_CONTEXTS[ctx]));
            let r = check_text(sh, "slot-matrix", &text);
            if !sh.report(r) {
                stop = true;
                return false;
            }
            true
        });
        if stop {
            return;
        }
        if sh.shard == 0 {
            sh.note("slot_matrix_templates", json!(TEMPLATES.len()));
            sh.note("slot_matrix_slots", json!(TEMPLATES.iter().map(|(_, _, s)| s.len()).sum::<usize>()));
            sh.note("slot_matrix_cases", json!(n_slot_cases));
        }
        sh.exhaustive("slot matrix: every expression / place slot of every listed statement and built-in form x every operand shape in the main module; every shape x {main, SUB, FUNCTION} in ten generic slots");
        lap("slot-matrix", sh);
        // (e1) random mix: several statements, every slot filled, nested operands
        let n = sh.share(tier.pick(6_000, 120_000));
        sh.search(9, n, 8, 120, |sh, tape| {
            let mut t = Tape::new(tape);
            let (text, used) = gen_slot_mix(&mut t);
            for u in used {
                sh.class(&format!("slot:{}", u.split('/').next().unwrap_or(u)));
            }
            check_text(sh, "slot-mix", &text)
        });
        lap("slot-mix", sh);
        // (e2) every ordered pair of declarations of the same name (enumerated)
        let mut n_pair_cases = 0u64;
        decl_pairs(|idx, a, b, ctx, text| {
            n_pair_cases = idx;
            if !sh.mine(idx) {
                return true;
            }
            sh.class(&format!("decl-first:{}", a.kind));
            sh.class(&format!("decl-second:{}", b.kind));
            sh.class(&format!("decl-context:{}", PAIR_CONTEXTS[ctx]));
            let r = check_text(sh, "decl-pairs", &text);
            if !sh.report(r) {
                stop = true;
                return false;
            }
            true
        });
        if stop {
            return;
        }
        if sh.shard == 0 {
            sh.note("decl_pair_cases", json!(n_pair_cases));
        }
        sh.exhaustive("declaration pairs: every ordered pair of DIM / REDIM / CONST / implicit / FOR / parameter forms of one name (every qualifier, every AS type, scalar / 1-D / 2-D array, SHARED or not) in main+main (not SHARED + SHARED) and param+sub (main+sub, sub+sub: every second pair, main+function: every fourth)");
        lap("decl-pairs", sh);
        // (e2) random declaration soup: longer sequences, uses in between, DEFtype, functions of the name
        let n = sh.share(tier.pick(8_000, 150_000));
        sh.search(10, n, 8, 80, |sh, tape| {
            let mut t = Tape::new(tape);
            let (text, kinds) = gen_decl_soup(&mut t);
            for k in kinds {
                sh.class(&format!("decl-soup:{}", k));
            }
            check_text(sh, "decl-soup", &text)
        });
        lap("decl-soup", sh);
        // hand-written members of the two families above (kept as fixed witnesses, after the generators, which do not depend on them)
        if sh.shard == 0 {
            for text in [
                "DIM A(1 TO 3)\nA(3) = 5\nX = 4\nSELECT CASE X\nCASE 1 TO A(3)\nPRINT \"in range\"\nCASE ELSE\nPRINT \"out of range\"\nEND SELECT\n",
                "DECLARE FUNCTION Limit (N)\nX = 4\nSELECT CASE X\nCASE 1 TO Limit(2)\nPRINT \"in range\"\nEND SELECT\nFUNCTION Limit (N)\nLimit = N * 3\nEND FUNCTION\n",
                "REDIM A(1 TO 5) AS INTEGER\nREDIM A%(1 TO 8)\nA%(8) = 42\nPRINT \"done\"\n",
                "REDIM A%(1 TO 5)\nREDIM A(1 TO 8) AS INTEGER\n",
            ] {
                let r = check_text(sh, "forms-witness", text);
                if !sh.report(r) {
                    return;
                }
            }
        }
        // (c) corpus: this worker's share of the accepted programs (loaded once)
        let all = crate::corpus::accepted();
        sh.note("corpus_accepted_programs", json!(if sh.shard == 0 { all.len() } else { 0 }));
        let mine: Vec<String> = all.iter().enumerate().filter(|(i, _)| (*i as u32) % sh.nshards == sh.shard).map(|(_, s)| s.clone()).collect();
        sh.note("corpus_chars_in_shares", json!(mine.iter().map(|p| p.chars().count() as u64).sum::<u64>()));
        drop(all);
        if mine.is_empty() {
            return;
        }

        lap("corpus load", sh);
        let n = sh.share(tier.pick(24_000, 300_000));
        sh.search(4, n, 8, 40, |sh, tape| {
            let mut t = Tape::new(tape);
            let a = &mine[t.choose(mine.len())];
            let b = &mine[t.choose(mine.len())];
            let text = mutate_tokens(a, b, &mut t);
            check_text(sh, "mut-token", &text)
        });
        lap("mut-token", sh);
        let n = sh.share(tier.pick(12_000, 150_000));
        sh.search(5, n, 8, 24, |sh, tape| {
            let mut t = Tape::new(tape);
            let a = &mine[t.choose(mine.len())];
            let text = mutate_bytes(a, &mut t);
            check_text(sh, "mut-byte", &text)
        });
        lap("mut-byte", sh);
        let n = sh.share(tier.pick(8_000, 100_000));
        sh.search(6, n, 6, 8, |sh, tape| {
            let mut t = Tape::new(tape);
            let a = &mine[t.choose(mine.len())];
            let b = &mine[t.choose(mine.len())];
            let text = splice(a, b, &mut t);
            check_text(sh, "splice", &text)
        });

        lap("splice", sh);
        // truncate at every prefix (exhaustive per program)
        let mut seen: BTreeSet<u64> = BTreeSet::new();
        let mut programs = 0usize;
        for p in &mine {
            let nchars = p.chars().count();
            if tier == Tier::Quick && (nchars > QUICK_PREFIX_MAX_CHARS || programs >= QUICK_PREFIX_PROGRAMS_PER_WORKER) {
                continue;
            }
            programs += 1;
            let mut cuts: Vec<usize> = p.char_indices().map(|(i, _)| i).collect();
            cuts.push(p.len());
            for c in cuts {
                let text = &p[..c];
                if !seen.insert(hash64(text)) {
                    continue;
                }
                let r = check_text(sh, "prefix", text);
                if !sh.report(r) {
                    return;
                }
            }
        }
        lap("prefix", sh);
        sh.note("prefix_programs_exhaustively_truncated", json!(programs));
        if tier == Tier::Thorough {
            sh.exhaustive("every character-boundary prefix of every accepted corpus program");
        } else {
            sh.exhaustive("every character-boundary prefix of the first 24 corpus programs (<= 400 chars) of each worker's share");
        }
    }

    fn replay(&self, sh: &mut Shard, inputs: &Value) -> Result<(), Violation> {
        // process-death violations carry the journaled text under "journal"
        if let Some(g) = inputs["matrix"].as_str() {
            // hand-inspection aid: {"matrix": "slots"|"pairs", "only": "OK"|"lint"|"parse"|"panic"|"", "grep": "text"} prints enumerated programs
            // (slots: the lit / var columns, or everything that matches a non-empty grep; pairs: every 37th) with index and outcome
            let only = inputs["only"].as_str().unwrap_or("").to_string();
            let grep = inputs["grep"].as_str().unwrap_or("").to_string();
            let mut counts: std::collections::BTreeMap<String, (u64, u64)> = Default::default();
            let mut show = |key: String, text: String| {
                let out = match impl_run::front(&text) {
                    Ok(_) => "OK".to_string(),
                    Err(e) => format!("{}", e.to_json()),
                };
                let e = counts.entry(key.clone()).or_insert((0, 0));
                e.0 += 1;
                if out == "OK" {
                    e.1 += 1;
                }
                if !only.is_empty() && out.contains(&only) && (grep.is_empty() || key.contains(&grep) || text.contains(&grep)) {
                    println!("----- {}\n{}=> {}", key, text, out);
                }
            };
            if g == "slots" {
                slot_matrix(|i, name, k, label, ctx, text| {
                    if label == "lit" || label == "var" || !grep.is_empty() {
                        show(format!("[{}] {}#{} {} {}", i, name, k, label, FORM_CONTEXTS[ctx]), text);
                    }
                    true
                });
            } else {
                decl_pairs(|i, a, b, ctx, text| {
                    if i % 37 == 0 || !grep.is_empty() {
                        show(format!("[{}] {} > {} {}", i, a.kind, b.kind, PAIR_CONTEXTS[ctx]), text);
                    }
                    true
                });
            }
            let total: u64 = counts.values().map(|v| v.0).sum();
            let ok: u64 = counts.values().map(|v| v.1).sum();
            println!("{} programs, {} accepted", total, ok);
            return Ok(());
        }
        if let Some(g) = inputs["gen"].as_str() {
            // hand-inspection aid: {"gen": "stmts"|"soup"|"bytes", "n": k, "seed": s} prints generated texts with their outcomes
            let n = inputs["n"].as_u64().unwrap_or(20);
            let mut x = inputs["seed"].as_u64().unwrap_or(1).wrapping_mul(0x9E3779B97F4A7C15) | 1;
            for _ in 0..n {
                let tape: Vec<u32> = (0..600)
                    .map(|_| {
                        x ^= x << 13;
                        x ^= x >> 7;
                        x ^= x << 17;
                        (x >> 16) as u32
                    })
                    .collect();
                let mut t = Tape::new(&tape);
                let text = match g {
                    "stmts" => gen_stmts(&mut t),
                    "soup" => gen_soup(&mut t),
                    "typed" => gen_program(&mut t),
                    "slot-mix" => gen_slot_mix(&mut t).0,
                    "decl-soup" => gen_decl_soup(&mut t).0,
                    _ => gen_bytes(&mut t).0,
                };
                let out = match impl_run::front(&text) {
                    Ok(_) => "OK".to_string(),
                    Err(e) => format!("{}", e.to_json()),
                };
                println!("----- {}\n{}\n=> {}", g, text, out);
            }
            return Ok(());
        }
        let built;
        let text = if let Some(kind) = inputs["deep_kind"].as_str() {
            // hand-probing aid: {"deep_kind": "...", "depth": n}
            built = deep_text(kind, inputs["depth"].as_u64().unwrap_or(10) as usize);
            built.as_str()
        } else {
            inputs["text"].as_str().or_else(|| inputs["journal"].as_str()).unwrap_or("")
        };
        let source = inputs["source"].as_str().unwrap_or("replay").to_string();
        let t0 = thread_cpu_us();
        let r = check_text(sh, &source, text);
        if std::env::var("C07_VERBOSE").is_ok() {
            eprintln!("C07 replay: {} chars, {} us cpu, classes {:?}", text.chars().count(), thread_cpu_us() - t0, sh.stats.classes.keys().collect::<Vec<_>>());
        }
        r
    }
}

#[cfg(test)]
mod tests {
    use super::*;

    #[test]
    fn position_model() {
        use PosVerdict::*;
        assert_eq!(judge_pos("", 1, 1), Valid("end-of-text"));
        assert!(matches!(judge_pos("", 1, 2), Invalid(_)));
        assert!(matches!(judge_pos("", 2, 1), Invalid(_)));
        assert_eq!(judge_pos("abc", 1, 3), Valid("character"));
        assert_eq!(judge_pos("abc", 1, 4), Valid("end-of-text"));
        assert!(matches!(judge_pos("abc", 1, 5), Invalid(_)));
        assert_eq!(judge_pos("abc\n", 1, 4), Valid("line-terminator"));
        assert_eq!(judge_pos("abc\n", 1, 5), Valid("end-of-text-after-terminator"));
        assert_eq!(judge_pos("abc\n", 2, 1), Valid("end-of-text"));
        assert!(matches!(judge_pos("abc\n", 1, 6), Invalid(_)));
        assert!(matches!(judge_pos("abc\n", 2, 2), Invalid(_)));
        assert!(matches!(judge_pos("abc\n", 3, 1), Invalid(_)));
        assert_eq!(judge_pos("abc\r\n", 1, 5), Valid("lf-of-crlf"));
        assert_eq!(judge_pos("abc\r\n", 1, 6), Valid("end-of-text-after-terminator"));
        assert!(matches!(judge_pos("abc\r\n", 1, 7), Invalid(_)));
        assert!(matches!(judge_pos("abc\r\n", 3, 1), Invalid(_)));
        assert!(matches!(judge_pos("abc\ndef", 1, 5), Doubtful(_)));
        assert_eq!(judge_pos("abc\rdef", 2, 4), Valid("end-of-text"));
        assert!(matches!(judge_pos("abc", 0, 1), Invalid("row-0")));
        assert!(matches!(judge_pos("abc", 1, 0), Invalid("col-0")));
        assert_eq!(judge_pos("é日x", 1, 3), Valid("character"));
        assert!(matches!(judge_pos("é日x", 1, 5), Invalid(_)));
    }
}

//! One module per property.

use serde_json::Value;

use crate::engine::{Shard, Violation};

pub trait Prop: Sync {
    fn id(&self) -> &'static str;
    /// How cases are generated and what makes one non-trivial / distinct.
    fn rule(&self) -> &'static str;
    fn assumptions(&self) -> Vec<&'static str>;
    /// Runs this shard's share of the search, recording into `sh`.
    fn run(&self, sh: &mut Shard);
    /// Re-executes the rendered inputs of a replay file (no generator, no library).
    fn replay(&self, sh: &mut Shard, inputs: &Value) -> Result<(), Violation>;
    /// CPU-time limit per case.
    fn watchdog_ms(&self) -> u64 {
        60_000
    }
    /// Does the death of the worker process (stack overflow, abort) violate this property?
    fn death_is_violation(&self) -> bool {
        false
    }
    fn hang_is_violation(&self) -> bool {
        false
    }
}

pub mod c01;
pub mod c02;
pub mod c03;
pub mod c04;
pub mod c05;
pub mod c06;
pub mod c07;
pub mod c08;
pub mod c09;
pub mod c10;
pub mod c11;
pub mod c12;
pub mod faults;
pub mod c13;
pub mod c14;
pub mod c15;
pub mod c16;
pub mod c17;
pub mod c18;
pub mod c19;
pub mod c20;
pub mod shapes;
pub mod common;

pub fn lookup(id: &str) -> Option<&'static dyn Prop> {
    match id {
        "C01" => Some(&c01::C01),
        "C02" => Some(&c02::C02),
        "C03" => Some(&c03::C03),
        "C04" => Some(&c04::C04),
        "C05" => Some(&c05::C05),
        "C06" => Some(&c06::C06),
        "C07" => Some(&c07::C07),
        "C08" => Some(&c08::C08),
        "C09" => Some(&c09::C09),
        "C10" => Some(&c10::C10),
        "C11" => Some(&c11::C11),
        "C12" => Some(&c12::C12),
        "C13" => Some(&c13::C13),
        "C14" => Some(&c14::C14),
        "C15" => Some(&c15::C15),
        "C16" => Some(&c16::C16),
        "C17" => Some(&c17::C17),
        "C18" => Some(&c18::C18),
        "C19" => Some(&c19::C19),
        "C20" => Some(&c20::C20),
        _ => None,
    }
}

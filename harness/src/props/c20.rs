//! C20 — parser combinators (rusty_pc) honour their backtracking and error contract.
//!
//! Parser *expressions* are data (`E`). `build` turns an expression into a real
//! rusty_pc parser over the harness's own input (`TI`) and error type (`TE`);
//! `Model::ev` is a denotational model written from the doc comments of rusty_pc.
//! Every node of the real parser is wrapped in a transparent `Probe` that records
//! (node, start, outcome, end), so the real run is compared with the model node by
//! node (result AND position) and the invariants of the property statement are
//! asserted directly on the real call tree.

use std::cell::{Cell, RefCell};
use std::collections::BTreeMap;

use rusty_pc::and::StringCombiner;
use rusty_pc::many::{ManyCombiner, VecManyCombiner};
use rusty_pc::many_ctx::ManyCtxParser;
use rusty_pc::text::{many_str, one_char_to_str};
use rusty_pc::{
    IifCtxParser, InputTrait, Or, OrParser, Parser, ParserErrorTrait, SurroundMode, ctx_parser, err_supplier, lazy, one_of_p, one_p, peek_p, read_p, seq2, seq3, seq4, supplier, surround,
};
use serde_json::{Value, json};

use crate::engine::{Shard, Tape, Tier, Violation, hash64};
use crate::panics;
use crate::props::Prop;

pub struct C20;

// ---------------------------------------------------------------------------
// error type and input type of the test parsers
// ---------------------------------------------------------------------------

#[derive(Clone, Debug, PartialEq, Eq)]
pub enum TE {
    Soft(u8),
    Fatal(u8),
}

impl Default for TE {
    fn default() -> Self {
        TE::Soft(0)
    }
}

impl ParserErrorTrait for TE {
    fn is_fatal(&self) -> bool {
        matches!(self, TE::Fatal(_))
    }
    fn to_fatal(self) -> Self {
        match self {
            TE::Soft(k) | TE::Fatal(k) => TE::Fatal(k),
        }
    }
}

impl From<u8> for TE {
    fn from(k: u8) -> TE {
        TE::Soft(k)
    }
}

pub const MAX_INPUT: usize = 12;

pub struct TI {
    w: [char; MAX_INPUT],
    len: usize,
    pos: usize,
}

impl TI {
    fn new(w: &[char], pos: usize) -> TI {
        let mut a = ['\0'; MAX_INPUT];
        a[..w.len()].copy_from_slice(w);
        TI { w: a, len: w.len(), pos }
    }
}

impl InputTrait for TI {
    type Output = char;
    fn peek(&self) -> char {
        tick();
        if self.pos >= self.len {
            panic!("c20-input: peek at end of input");
        }
        self.w[self.pos]
    }
    fn read(&mut self) -> char {
        tick();
        if self.pos >= self.len {
            panic!("c20-input: read at end of input");
        }
        let c = self.w[self.pos];
        self.pos += 1;
        c
    }
    fn get_position(&self) -> usize {
        tick();
        self.pos
    }
    fn is_eof(&self) -> bool {
        tick();
        self.pos >= self.len
    }
    fn set_position(&mut self, position: usize) {
        tick();
        if position > self.len {
            panic!("c20-input: set_position beyond end of input");
        }
        self.pos = position;
    }
}

thread_local! {
    static TRACE: RefCell<Vec<Ev>> = RefCell::new(Vec::with_capacity(1024));
    static FUEL: Cell<u64> = const { Cell::new(0) };
}

/// Every input operation and every harness-supplied closure burns fuel; a real parser that
/// does not terminate where the model does ends in a (captured) panic instead of a hang.
fn tick() {
    FUEL.with(|f| {
        let v = f.get();
        if v == 0 {
            panic!("c20-fuel-exhausted");
        }
        f.set(v - 1);
    })
}

// ---------------------------------------------------------------------------
// trace events
// ---------------------------------------------------------------------------

const ENTER: u8 = 0;
const OK: u8 = 1;
const SOFT: u8 = 2;
const FATAL: u8 = 3;
const ANYTAG: u8 = 255;

#[derive(Clone, Copy, Debug, PartialEq, Eq)]
struct Ev {
    id: u16,
    kind: u8,
    tag: u8,
    pos: u8,
    h: u32,
}

fn fnv32(s: &str) -> u32 {
    let mut h: u32 = 0x811c9dc5;
    for b in s.as_bytes() {
        h ^= *b as u32;
        h = h.wrapping_mul(0x01000193);
    }
    h
}

const NO_PROBE: u16 = u16::MAX;

/// Transparent decorator: delegates `parse` and `set_context`, records entry and exit.
pub struct Probe {
    id: u16,
    inner: Box<dyn Parser<TI, String, Output = String, Error = TE>>,
}

impl Parser<TI, String> for Probe {
    type Output = String;
    type Error = TE;
    fn parse(&mut self, input: &mut TI) -> Result<String, TE> {
        if self.id == NO_PROBE {
            return self.inner.parse(input);
        }
        let id = self.id;
        // every parser call burns fuel, so that no loop of the real parser can spin without end
        tick();
        let p0 = input.pos as u8;
        TRACE.with(|t| t.borrow_mut().push(Ev { id, kind: ENTER, tag: 0, pos: p0, h: 0 }));
        let r = self.inner.parse(input);
        let ev = match &r {
            Ok(s) => Ev { id, kind: OK, tag: 0, pos: input.pos as u8, h: fnv32(s) },
            Err(TE::Soft(k)) => Ev { id, kind: SOFT, tag: *k, pos: input.pos as u8, h: 0 },
            Err(TE::Fatal(k)) => Ev { id, kind: FATAL, tag: *k, pos: input.pos as u8, h: 0 },
        };
        TRACE.with(|t| t.borrow_mut().push(ev));
        r
    }
    fn set_context(&mut self, ctx: &String) {
        self.inner.set_context(ctx)
    }
}

fn wrap<P>(id: u16, p: P) -> Probe
where
    P: Parser<TI, String, Output = String, Error = TE> + 'static,
{
    Probe { id, inner: Box::new(p) }
}

/// Primitives of rusty_pc have context type `()`; `no_context` lifts them.
fn leaf<P>(id: u16, p: P) -> Probe
where
    P: Parser<TI, (), Output = String, Error = TE> + 'static,
{
    wrap(id, p.no_context::<String>())
}

// ---------------------------------------------------------------------------
// expressions as data
// ---------------------------------------------------------------------------

#[derive(Clone, Copy, PartialEq, Eq, Hash, Debug)]
pub enum Pred {
    NotA,
    HasB,
    Len1,
    Any,
    Never,
}

impl Pred {
    fn test(self, s: &str) -> bool {
        match self {
            Pred::NotA => s != "a",
            Pred::HasB => s.contains('b'),
            Pred::Len1 => s.chars().count() <= 1,
            Pred::Any => true,
            Pred::Never => false,
        }
    }
    fn name(self) -> &'static str {
        match self {
            Pred::NotA => "nota",
            Pred::HasB => "hasb",
            Pred::Len1 => "len1",
            Pred::Any => "any",
            Pred::Never => "never",
        }
    }
    fn parse(s: &str) -> Option<Pred> {
        [Pred::NotA, Pred::HasB, Pred::Len1, Pred::Any, Pred::Never].into_iter().find(|p| p.name() == s)
    }
}

/// Combiner of `and` / `then_with_in_context`.
#[derive(Clone, Copy, PartialEq, Eq, Hash, Debug)]
pub enum AK {
    Fun,
    Tuple,
    Left,
    Right,
    Concat,
}

impl AK {
    fn name(self) -> &'static str {
        match self {
            AK::Fun => "fun",
            AK::Tuple => "tuple",
            AK::Left => "left",
            AK::Right => "right",
            AK::Concat => "concat",
        }
    }
    fn parse(s: &str) -> Option<AK> {
        [AK::Fun, AK::Tuple, AK::Left, AK::Right, AK::Concat].into_iter().find(|p| p.name() == s)
    }
    fn combine(self, l: &str, r: &str) -> String {
        match self {
            AK::Fun => format!("{l}+{r}"),
            AK::Tuple => format!("({l},{r})"),
            AK::Left => l.to_string(),
            AK::Right => r.to_string(),
            AK::Concat => format!("{l}{r}"),
        }
    }
}

#[derive(Clone, Copy, PartialEq, Eq, Hash, Debug)]
pub enum MK {
    Many,
    ManyNone,
    OneOrMore,
    ZeroOrMore,
}

impl MK {
    fn allow_none(self) -> bool {
        matches!(self, MK::ManyNone | MK::ZeroOrMore)
    }
}

/// An error value: soft or fatal with a tag.
#[derive(Clone, Copy, PartialEq, Eq, Hash, Debug)]
pub enum Er {
    S(u8),
    F(u8),
}

impl Er {
    fn te(self) -> TE {
        match self {
            Er::S(k) => TE::Soft(k),
            Er::F(k) => TE::Fatal(k),
        }
    }
    fn show(self) -> String {
        match self {
            Er::S(k) => format!("s{k}"),
            Er::F(k) => format!("f{k}"),
        }
    }
    fn parse(s: &str) -> Option<Er> {
        let k: u8 = s.get(1..)?.parse().ok()?;
        if k >= 200 {
            return None;
        }
        match s.as_bytes()[0] {
            b's' => Some(Er::S(k)),
            b'f' => Some(Er::F(k)),
            _ => None,
        }
    }
}

/// Mapper of `and_then_err`.
#[derive(Clone, Copy, PartialEq, Eq, Hash, Debug)]
pub enum EF {
    Ok,
    Err(Er),
}

/// Set of characters over {a,b,c} as bit mask.
#[derive(Clone, Copy, PartialEq, Eq, Hash, Debug)]
pub struct CS(u8);

static SUBSETS: [&[char]; 8] = [&[], &['a'], &['b'], &['a', 'b'], &['c'], &['a', 'c'], &['b', 'c'], &['a', 'b', 'c']];

impl CS {
    fn has(self, c: char) -> bool {
        match c {
            'a' => self.0 & 1 != 0,
            'b' => self.0 & 2 != 0,
            'c' => self.0 & 4 != 0,
            _ => false,
        }
    }
    fn slice(self) -> &'static [char] {
        SUBSETS[(self.0 & 7) as usize]
    }
    fn show(self) -> String {
        if self.0 & 7 == 0 { "-".to_string() } else { self.slice().iter().collect() }
    }
    fn parse(s: &str) -> Option<CS> {
        if s == "-" {
            return Some(CS(0));
        }
        let mut m = 0;
        for c in s.chars() {
            m |= match c {
                'a' => 1,
                'b' => 2,
                'c' => 4,
                _ => return None,
            };
        }
        Some(CS(m))
    }
}

const TEXTS: [&str; 4] = ["x", "", "a", "yz"];
const TEXT_TOKENS: [&str; 4] = ["x", "_", "a", "yz"];

#[derive(Clone, Copy, PartialEq, Eq, Hash, Debug)]
pub enum K {
    // primitives
    Read,
    PeekP,
    One(char),
    OneOf(CS),
    OneStr(char),
    ManyStr(CS),
    Sup(u8),
    Err(Er),
    Ctx,
    // one child
    Filter(Pred),
    FilterMap(Pred),
    Peek,
    ToOption,
    OrDefault,
    Many(MK),
    ManyCtx(bool),
    AndThen(Pred, Er),
    AndThenErr(EF),
    Map,
    Unit,
    SoftErr(u8),
    OrFail(u8),
    OrExpected(u8),
    ExpectedMsg(u8),
    MapFatal(u8),
    ToFatal,
    Lazy,
    Boxed,
    NoCtx,
    MapCtx,
    FlatLit,
    // several children
    And(AK),
    Or2,
    OrN,
    Delim(bool, u8),
    Seq,
    ThenWith(AK),
    Iif(Pred),
    FlatIf(Pred),
    Surround(bool),
}

impl K {
    /// (min, max) number of children.
    fn arity(self) -> (usize, usize) {
        match self {
            K::Read | K::PeekP | K::One(_) | K::OneOf(_) | K::OneStr(_) | K::ManyStr(_) | K::Sup(_) | K::Err(_) | K::Ctx => (0, 0),
            K::And(_) | K::Or2 | K::Delim(..) | K::ThenWith(_) | K::Iif(_) => (2, 2),
            K::OrN => (1, 6),
            K::Seq => (2, 4),
            K::FlatIf(_) | K::Surround(_) => (3, 3),
            _ => (1, 1),
        }
    }
    /// Name of the combinator (classifier signatures and histograms).
    fn name(self) -> &'static str {
        match self {
            K::Read => "read_p",
            K::PeekP => "peek_p",
            K::One(_) => "one_p",
            K::OneOf(_) => "one_of_p",
            K::OneStr(_) => "one_char_to_str",
            K::ManyStr(_) => "many_str",
            K::Sup(_) => "supplier",
            K::Err(_) => "err_supplier",
            K::Ctx => "ctx_parser",
            K::Filter(_) => "filter",
            K::FilterMap(_) => "filter_map",
            K::Peek => "peek",
            K::ToOption => "to_option",
            K::OrDefault => "or_default",
            K::Many(MK::Many) => "many",
            K::Many(MK::ManyNone) => "many_allow_none",
            K::Many(MK::OneOrMore) => "one_or_more",
            K::Many(MK::ZeroOrMore) => "zero_or_more",
            K::ManyCtx(_) => "many_ctx",
            K::AndThen(..) => "and_then",
            K::AndThenErr(_) => "and_then_err",
            K::Map => "map",
            K::Unit => "map_to_unit",
            K::SoftErr(_) => "with_soft_err",
            K::OrFail(_) => "or_fail",
            K::OrExpected(_) => "or_expected",
            K::ExpectedMsg(_) => "with_expected_message",
            K::MapFatal(_) => "map_fatal_err",
            K::ToFatal => "to_fatal",
            K::Lazy => "lazy",
            K::Boxed => "boxed",
            K::NoCtx => "no_context",
            K::MapCtx => "map_ctx",
            K::FlatLit => "flatten",
            K::And(AK::Fun) | K::And(AK::Concat) => "and",
            K::And(AK::Tuple) => "and_tuple",
            K::And(AK::Left) => "and_keep_left",
            K::And(AK::Right) => "and_keep_right",
            K::Or2 => "or",
            K::OrN => "OrParser",
            K::Delim(false, _) => "delimited_by",
            K::Delim(true, _) => "delimited_by_allow_missing",
            K::Seq => "seq",
            K::ThenWith(_) => "then_with_in_context",
            K::Iif(_) => "iif_ctx",
            K::FlatIf(_) => "flatten",
            K::Surround(false) => "surround_optional",
            K::Surround(true) => "surround_mandatory",
        }
    }
}

#[derive(Clone, PartialEq, Eq, Hash, Debug)]
pub struct E {
    k: K,
    c: Vec<E>,
    /// number of nodes
    sz: u16,
    /// depth (a primitive has depth 0)
    dp: u8,
}

impl E {
    pub fn new(k: K, c: Vec<E>) -> E {
        let sz = 1 + c.iter().map(|x| x.sz).sum::<u16>();
        let dp = c.iter().map(|x| x.dp + 1).max().unwrap_or(0);
        E { k, c, sz, dp }
    }
    fn leaf(k: K) -> E {
        E::new(k, vec![])
    }
    /// Pre-order id of child `j` when this node has id `id`.
    fn kid_id(&self, id: u16, j: usize) -> u16 {
        let mut r = id + 1;
        for x in &self.c[..j] {
            r += x.sz;
        }
        r
    }

    pub fn show(&self) -> String {
        let mut s = String::new();
        self.show_into(&mut s);
        s
    }

    fn show_into(&self, o: &mut String) {
        let head: String = match self.k {
            K::Read => {
                o.push_str("read");
                return;
            }
            K::PeekP => {
                o.push_str("peekp");
                return;
            }
            K::Ctx => {
                o.push_str("ctx");
                return;
            }
            K::One(c) => format!("one {c}"),
            K::OneOf(s) => format!("oneof {}", s.show()),
            K::OneStr(c) => format!("onestr {c}"),
            K::ManyStr(s) => format!("manystr {}", s.show()),
            K::Sup(t) => format!("sup {}", TEXT_TOKENS[t as usize % 4]),
            K::Err(e) => format!("err {}", e.show()),
            K::Filter(p) => format!("filter {}", p.name()),
            K::FilterMap(p) => format!("filtermap {}", p.name()),
            K::Peek => "peek".into(),
            K::ToOption => "opt".into(),
            K::OrDefault => "ordefault".into(),
            K::Many(MK::Many) => "many".into(),
            K::Many(MK::ManyNone) => "many0".into(),
            K::Many(MK::OneOrMore) => "many1v".into(),
            K::Many(MK::ZeroOrMore) => "many0v".into(),
            K::ManyCtx(false) => "manyctx".into(),
            K::ManyCtx(true) => "manyctx0".into(),
            K::AndThen(p, e) => format!("andthen {} {}", p.name(), e.show()),
            K::AndThenErr(EF::Ok) => "andthenerr ok".into(),
            K::AndThenErr(EF::Err(e)) => format!("andthenerr {}", e.show()),
            K::Map => "map".into(),
            K::Unit => "unit".into(),
            K::SoftErr(k) => format!("softerr {k}"),
            K::OrFail(k) => format!("orfail {k}"),
            K::OrExpected(k) => format!("orexpected {k}"),
            K::ExpectedMsg(k) => format!("expectedmsg {k}"),
            K::MapFatal(k) => format!("mapfatal {k}"),
            K::ToFatal => "tofatal".into(),
            K::Lazy => "lazy".into(),
            K::Boxed => "boxed".into(),
            K::NoCtx => "noctx".into(),
            K::MapCtx => "mapctx".into(),
            K::FlatLit => "flatlit".into(),
            K::And(a) => format!("and {}", a.name()),
            K::Or2 => "or2".into(),
            K::OrN => "or".into(),
            K::Delim(false, k) => format!("delim {k}"),
            K::Delim(true, k) => format!("delim0 {k}"),
            K::Seq => "seq".into(),
            K::ThenWith(a) => format!("thenwith {}", a.name()),
            K::Iif(p) => format!("iif {}", p.name()),
            K::FlatIf(p) => format!("flatif {}", p.name()),
            K::Surround(false) => "surround opt".into(),
            K::Surround(true) => "surround mand".into(),
        };
        o.push('(');
        o.push_str(&head);
        for c in &self.c {
            o.push(' ');
            c.show_into(o);
        }
        o.push(')');
    }
}

// ---- textual form -> expression (used by replay) ----

fn tokenize(s: &str) -> Vec<String> {
    let mut v = vec![];
    let mut cur = String::new();
    for ch in s.chars() {
        if ch == '(' || ch == ')' || ch.is_whitespace() {
            if !cur.is_empty() {
                v.push(std::mem::take(&mut cur));
            }
            if ch == '(' || ch == ')' {
                v.push(ch.to_string());
            }
        } else {
            cur.push(ch);
        }
    }
    if !cur.is_empty() {
        v.push(cur);
    }
    v
}

pub fn parse_expr(s: &str) -> Result<E, String> {
    let toks = tokenize(s);
    let mut pos = 0;
    let e = parse_at(&toks, &mut pos)?;
    if pos != toks.len() {
        return Err(format!("trailing tokens after expression at {}", pos));
    }
    Ok(e)
}

fn parse_at(t: &[String], pos: &mut usize) -> Result<E, String> {
    let tok = t.get(*pos).ok_or("unexpected end")?.clone();
    *pos += 1;
    if tok != "(" {
        return match tok.as_str() {
            "read" => Ok(E::leaf(K::Read)),
            "peekp" => Ok(E::leaf(K::PeekP)),
            "ctx" => Ok(E::leaf(K::Ctx)),
            other => Err(format!("unknown atom {}", other)),
        };
    }
    let head = t.get(*pos).ok_or("missing head")?.clone();
    *pos += 1;
    let arg = |pos: &mut usize| -> Result<String, String> {
        let a = t.get(*pos).ok_or("missing parameter")?.clone();
        *pos += 1;
        Ok(a)
    };
    let ch = |s: String| -> Result<char, String> { s.chars().next().filter(|c| "abc".contains(*c) && s.len() == 1).ok_or(format!("bad char {}", s)) };
    let num = |s: String| -> Result<u8, String> { s.parse::<u8>().ok().filter(|k| *k < 200).ok_or(format!("bad number {}", s)) };
    let pred = |s: String| Pred::parse(&s).ok_or(format!("bad predicate {}", s));
    let er = |s: String| Er::parse(&s).ok_or(format!("bad error {}", s));
    let cs = |s: String| CS::parse(&s).ok_or(format!("bad set {}", s));
    let ak = |s: String| AK::parse(&s).ok_or(format!("bad combiner {}", s));
    let k = match head.as_str() {
        "one" => K::One(ch(arg(pos)?)?),
        "oneof" => K::OneOf(cs(arg(pos)?)?),
        "onestr" => K::OneStr(ch(arg(pos)?)?),
        "manystr" => K::ManyStr(cs(arg(pos)?)?),
        "sup" => {
            let a = arg(pos)?;
            K::Sup(TEXT_TOKENS.iter().position(|x| *x == a).ok_or(format!("bad text {}", a))? as u8)
        }
        "err" => K::Err(er(arg(pos)?)?),
        "filter" => K::Filter(pred(arg(pos)?)?),
        "filtermap" => K::FilterMap(pred(arg(pos)?)?),
        "peek" => K::Peek,
        "opt" => K::ToOption,
        "ordefault" => K::OrDefault,
        "many" => K::Many(MK::Many),
        "many0" => K::Many(MK::ManyNone),
        "many1v" => K::Many(MK::OneOrMore),
        "many0v" => K::Many(MK::ZeroOrMore),
        "manyctx" => K::ManyCtx(false),
        "manyctx0" => K::ManyCtx(true),
        "andthen" => {
            let p = pred(arg(pos)?)?;
            K::AndThen(p, er(arg(pos)?)?)
        }
        "andthenerr" => {
            let a = arg(pos)?;
            if a == "ok" { K::AndThenErr(EF::Ok) } else { K::AndThenErr(EF::Err(er(a)?)) }
        }
        "map" => K::Map,
        "unit" => K::Unit,
        "softerr" => K::SoftErr(num(arg(pos)?)?),
        "orfail" => K::OrFail(num(arg(pos)?)?),
        "orexpected" => K::OrExpected(num(arg(pos)?)?),
        "expectedmsg" => K::ExpectedMsg(num(arg(pos)?)?),
        "mapfatal" => K::MapFatal(num(arg(pos)?)?),
        "tofatal" => K::ToFatal,
        "lazy" => K::Lazy,
        "boxed" => K::Boxed,
        "noctx" => K::NoCtx,
        "mapctx" => K::MapCtx,
        "flatlit" => K::FlatLit,
        "and" => K::And(ak(arg(pos)?)?),
        "or2" => K::Or2,
        "or" => K::OrN,
        "delim" => K::Delim(false, num(arg(pos)?)?),
        "delim0" => K::Delim(true, num(arg(pos)?)?),
        "seq" => K::Seq,
        "thenwith" => K::ThenWith(ak(arg(pos)?)?),
        "iif" => K::Iif(pred(arg(pos)?)?),
        "flatif" => K::FlatIf(pred(arg(pos)?)?),
        "surround" => match arg(pos)?.as_str() {
            "opt" => K::Surround(false),
            "mand" => K::Surround(true),
            o => return Err(format!("bad surround mode {}", o)),
        },
        other => return Err(format!("unknown combinator {}", other)),
    };
    let mut c = vec![];
    loop {
        match t.get(*pos).map(|s| s.as_str()) {
            None => return Err("missing )".into()),
            Some(")") => {
                *pos += 1;
                break;
            }
            Some(_) => c.push(parse_at(t, pos)?),
        }
    }
    let (lo, hi) = k.arity();
    if c.len() < lo || c.len() > hi {
        return Err(format!("{} takes {}..{} children, got {}", head, lo, hi, c.len()));
    }
    Ok(E::new(k, c))
}

/// Static well-formedness: `ctx_parser` / `IifCtxParser` only where a context has been set
/// (right side of `then_with_in_context`, element of `ManyCtxParser`), otherwise they panic by design.
/// `seq_in_scope` reports a `seqN` that receives `set_context` (its `set_context` is `unimplemented!()`).
pub struct Scoping {
    pub ill_scoped: bool,
    pub seq_in_scope: bool,
    pub uses_ctx: bool,
}

pub fn scoping(e: &E) -> Scoping {
    let mut s = Scoping { ill_scoped: false, seq_in_scope: false, uses_ctx: false };
    scope_walk(e, false, &mut s);
    s
}

fn scope_walk(e: &E, scope: bool, s: &mut Scoping) {
    match e.k {
        K::Ctx | K::Iif(_) => {
            s.uses_ctx = true;
            if !scope {
                s.ill_scoped = true;
            }
        }
        K::Seq => {
            if scope {
                s.seq_in_scope = true;
            }
        }
        K::ThenWith(_) | K::ManyCtx(_) => s.uses_ctx = true,
        _ => {}
    }
    for (j, c) in e.c.iter().enumerate() {
        let sc = match e.k {
            K::NoCtx | K::Iif(_) => false,
            K::FlatLit | K::FlatIf(_) => j == 0 && scope,
            K::ManyCtx(_) => true,
            K::ThenWith(_) => j == 1 || scope,
            _ => scope,
        };
        scope_walk(c, sc, s);
    }
}

fn rot(s: &str) -> String {
    s.chars()
        .map(|c| match c {
            'a' => 'b',
            'b' => 'c',
            'c' => 'a',
            o => o,
        })
        .collect()
}

fn render_opt(o: Option<String>) -> String {
    match o {
        Some(s) => format!("S({s})"),
        None => "N".to_string(),
    }
}

/// Expression matching the literal text `s` (used by `flatlit`: parse p, then its own output again).
fn lit_expr(s: &str) -> E {
    let mut chars: Vec<char> = s.chars().collect();
    if chars.is_empty() || chars.len() > 8 || chars.iter().any(|c| !"abc".contains(*c)) {
        // an output that is not a plain word over the alphabet can never be matched; the empty word always
        return if chars.is_empty() { E::leaf(K::Sup(1)) } else { E::leaf(K::Err(Er::S(11))) };
    }
    let last = chars.pop().unwrap();
    let mut e = E::leaf(K::OneStr(last));
    while let Some(c) = chars.pop() {
        e = E::new(K::And(AK::Concat), vec![E::leaf(K::OneStr(c)), e]);
    }
    e
}

// ---------------------------------------------------------------------------
// builder: expression -> real rusty_pc parser
// ---------------------------------------------------------------------------

/// `ManyCombiner` joining rendered elements with ';'.
struct Join;

impl ManyCombiner<String, String> for Join {
    fn seed(&self, element: String) -> String {
        element
    }
    fn accumulate(&self, mut result: String, element: String) -> String {
        result.push(';');
        result.push_str(&element);
        result
    }
}

type DynP = Box<dyn Parser<TI, String, Output = String, Error = TE>>;

pub fn build(e: &E, id: u16) -> Probe {
    let probe = id != NO_PROBE;
    let kid = |j: usize| -> Probe { build(&e.c[j], if probe { e.kid_id(id, j) } else { NO_PROBE }) };
    match e.k {
        K::Read => leaf(id, read_p::<TI, TE>().map(|c: char| c.to_string())),
        K::PeekP => leaf(id, peek_p::<TI, TE>().map(|c: char| c.to_string())),
        K::One(c) => leaf(id, one_p::<TI, char, TE>(c).map(|c: char| c.to_string())),
        K::OneOf(s) => leaf(id, one_of_p::<TI, char, TE>(s.slice()).map(|c: char| c.to_string())),
        K::OneStr(c) => leaf(id, one_char_to_str::<TI, TE>(c)),
        K::ManyStr(s) => leaf(id, many_str::<TI, TE, _>(move |c: &char| s.has(*c))),
        K::Sup(t) => wrap(
            id,
            supplier::<TI, String, _, String, TE>(move || {
                tick();
                TEXTS[t as usize % 4].to_string()
            }),
        ),
        K::Err(er) => wrap(
            id,
            err_supplier::<TI, String, _, String, TE>(move || {
                tick();
                er.te()
            }),
        ),
        K::Ctx => wrap(id, ctx_parser::<TI, String, TE>()),
        K::Filter(p) => wrap(id, kid(0).filter(move |s: &String| p.test(s))),
        K::FilterMap(p) => wrap(id, kid(0).filter_map(move |s: &String| if p.test(s) { Some(format!("fm({s})")) } else { None })),
        K::Peek => wrap(id, kid(0).peek()),
        K::ToOption => wrap(id, kid(0).to_option().map(render_opt)),
        K::OrDefault => wrap(id, kid(0).or_default()),
        K::Many(MK::Many) => wrap(id, kid(0).many(Join).map(|s: String| format!("[{s}]"))),
        K::Many(MK::ManyNone) => wrap(id, kid(0).many_allow_none(Join).map(|s: String| format!("[{s}]"))),
        K::Many(MK::OneOrMore) => wrap(id, kid(0).one_or_more().map(|v: Vec<String>| format!("[{}]", v.join(";")))),
        K::Many(MK::ZeroOrMore) => wrap(id, kid(0).zero_or_more().map(|v: Vec<String>| format!("[{}]", v.join(";")))),
        K::ManyCtx(allow_none) => {
            if allow_none {
                // the library's own VecManyCombiner
                wrap(id, Parser::<TI, String>::map(ManyCtxParser::new::<TI>(kid(0), VecManyCombiner, |s: &String| s.clone(), true), |v: Vec<String>| format!("[{}]", v.join(";"))))
            } else {
                wrap(id, Parser::<TI, String>::map(ManyCtxParser::new::<TI>(kid(0), Join, |s: &String| s.clone(), false), |s: String| format!("[{s}]")))
            }
        }
        K::AndThen(p, er) => wrap(
            id,
            kid(0).and_then(move |s: String| {
                tick();
                if p.test(&s) { Ok(format!("{s}!")) } else { Err(er.te()) }
            }),
        ),
        K::AndThenErr(ef) => wrap(
            id,
            kid(0).and_then_err(move |_e: TE| {
                tick();
                match ef {
                    EF::Ok => Ok("dflt".to_string()),
                    EF::Err(er) => Err(er.te()),
                }
            }),
        ),
        K::Map => wrap(id, kid(0).map(|s: String| format!("m({s})"))),
        K::Unit => wrap(id, kid(0).map_to_unit().map(|_: ()| "()".to_string())),
        K::SoftErr(k) => wrap(id, kid(0).with_soft_err(TE::Soft(k))),
        K::OrFail(k) => wrap(id, kid(0).or_fail(TE::Fatal(k))),
        K::OrExpected(k) => wrap(id, kid(0).or_expected(k)),
        K::ExpectedMsg(k) => wrap(id, kid(0).with_expected_message(k)),
        K::MapFatal(k) => wrap(id, kid(0).map_fatal_err(TE::Fatal(k))),
        K::ToFatal => wrap(id, kid(0).to_fatal()),
        K::Lazy => {
            let child = e.c[0].clone();
            let cid = if probe { id + 1 } else { NO_PROBE };
            wrap(id, lazy::<TI, String, _, Probe>(move || build(&child, cid)))
        }
        K::Boxed => wrap(id, kid(0).boxed()),
        K::NoCtx => wrap(id, kid(0).no_context::<String>()),
        K::MapCtx => wrap(id, kid(0).map_ctx(|s: &String| rot(s))),
        K::FlatLit => wrap(id, kid(0).map(|s: String| -> Probe { build(&lit_expr(&s), NO_PROBE) }).flatten::<String>()),
        K::FlatIf(p) => {
            let e1 = e.c[1].clone();
            let e2 = e.c[2].clone();
            let (i1, i2) = if probe { (e.kid_id(id, 1), e.kid_id(id, 2)) } else { (NO_PROBE, NO_PROBE) };
            wrap(id, kid(0).map(move |s: String| -> Probe { if p.test(&s) { build(&e1, i1) } else { build(&e2, i2) } }).flatten::<String>())
        }
        K::And(ak) => {
            let (l, r) = (kid(0), kid(1));
            match ak {
                AK::Fun => wrap(id, l.and(r, |a: String, b: String| -> String { format!("{a}+{b}") })),
                AK::Tuple => wrap(id, l.and_tuple(r).map(|(a, b): (String, String)| format!("({a},{b})"))),
                AK::Left => wrap(id, l.and_keep_left(r)),
                AK::Right => wrap(id, l.and_keep_right(r)),
                AK::Concat => wrap(id, l.and::<_, _, String>(r, StringCombiner)),
            }
        }
        K::Or2 => wrap(id, kid(0).or(kid(1))),
        K::OrN => {
            let alts: Vec<DynP> = (0..e.c.len()).map(|j| Box::new(kid(j)) as DynP).collect();
            wrap(id, OrParser::new(alts))
        }
        K::Delim(false, k) => wrap(id, kid(0).delimited_by(kid(1), TE::Fatal(k)).map(|v: Vec<String>| format!("[{}]", v.join(",")))),
        K::Delim(true, k) => wrap(
            id,
            kid(0).delimited_by_allow_missing(kid(1), TE::Fatal(k)).map(|v: Vec<Option<String>>| format!("[{}]", v.into_iter().map(render_opt).collect::<Vec<_>>().join(","))),
        ),
        K::Seq => match e.c.len() {
            2 => wrap(id, seq2(kid(0), kid(1), |a: String, b: String| format!("<{a}|{b}>"))),
            3 => wrap(id, seq3(kid(0), kid(1), kid(2), |a: String, b: String, c: String| format!("<{a}|{b}|{c}>"))),
            _ => wrap(id, seq4(kid(0), kid(1), kid(2), kid(3), |a: String, b: String, c: String, d: String| format!("<{a}|{b}|{c}|{d}>"))),
        },
        K::ThenWith(ak) => {
            let (l, r) = (kid(0), kid(1));
            match ak {
                AK::Fun => wrap(id, l.then_with_in_context(r, |a: String, b: String| -> String { format!("{a}+{b}") })),
                AK::Tuple => wrap(id, l.then_with_in_context(r, rusty_pc::and::TupleCombiner).map(|(a, b): (String, String)| format!("({a},{b})"))),
                AK::Left => wrap(id, l.then_with_in_context(r, rusty_pc::and::KeepLeftCombiner)),
                AK::Right => wrap(id, l.then_with_in_context(r, rusty_pc::and::KeepRightCombiner)),
                AK::Concat => wrap(id, l.then_with_in_context::<_, _, String>(r, StringCombiner)),
            }
        }
        K::Iif(p) => wrap(id, IifCtxParser::new::<TI>(kid(0).no_context::<()>(), kid(1).no_context::<()>()).map_ctx(move |s: &String| p.test(s))),
        K::Surround(mandatory) => wrap(id, surround(kid(0), kid(1), kid(2), if mandatory { SurroundMode::Mandatory } else { SurroundMode::Optional })),
    }
}

// ---------------------------------------------------------------------------
// denotational model of the documented semantics
// ---------------------------------------------------------------------------

/// Error tag: `None` = the documentation does not say which error value is returned.
type Tag = Option<u8>;

#[derive(Clone, Debug, PartialEq, Eq)]
pub enum Out {
    Ok(String),
    Soft(Tag),
    Fatal(Tag),
}

impl Out {
    fn is_ok(&self) -> bool {
        matches!(self, Out::Ok(_))
    }
    fn show(&self) -> String {
        let t = |t: &Tag| t.map(|k| k.to_string()).unwrap_or("?".into());
        match self {
            Out::Ok(s) => format!("Ok({:?})", s),
            Out::Soft(k) => format!("Soft({})", t(k)),
            Out::Fatal(k) => format!("Fatal({})", t(k)),
        }
    }
    fn to_fatal(self) -> Out {
        match self {
            Out::Soft(t) | Out::Fatal(t) => Out::Fatal(t),
            o => o,
        }
    }
}

fn of_er(er: Er) -> Out {
    match er {
        Er::S(k) => Out::Soft(Some(k)),
        Er::F(k) => Out::Fatal(Some(k)),
    }
}

const NT_FAIL_AFTER_CONSUME: u8 = 1;
const NT_REPETITION: u8 = 2;
const NT_FELL_THROUGH: u8 = 4;

// features of delimited lists met while evaluating the model (class histogram only)
const F_LEAD: u16 = 1;
const F_LEAD_ABSORB: u16 = 2;
const F_DOUBLED: u16 = 4;
const F_TRAILING: u16 = 8;
const F_MISSING: u16 = 16;
const F_LIST2: u16 = 32;
/// the real parser matched the alternative reading of a leading delimiter (soft failure, rewound)
const F_ALT_READING: u16 = 64;
const F_LEAD_THEN_ELEMENT: u16 = 128;

fn feat_class(f: u16) -> [(&'static str, bool); 8] {
    [
        ("delim:leading-delimiter", f & F_LEAD != 0),
        ("delim:leading-delimiter:under-soft-absorbing-combinator", f & F_LEAD_ABSORB != 0),
        ("delim:leading-delimiter:element-follows", f & F_LEAD_THEN_ELEMENT != 0),
        ("delim:leading-delimiter:matched-soft-rewound-reading", f & F_ALT_READING != 0),
        ("delim:doubled-delimiter", f & F_DOUBLED != 0),
        ("delim:trailing-delimiter", f & F_TRAILING != 0),
        ("delim:missing-element-collected", f & F_MISSING != 0),
        ("delim:list>=2", f & F_LIST2 != 0),
    ]
}

/// `Err(reason)`: the documentation does not determine the behaviour (or a documented
/// precondition is violated); the case is discarded and counted, never run.
type R = Result<(Out, usize), &'static str>;

pub struct Model<'a> {
    w: &'a [char],
    trace: Vec<Ev>,
    start0: usize,
    maxpos: usize,
    nt: u8,
    /// Reading of "a delimiter before the first element" under `delimited_by` (missing elements not
    /// supported): false = rejected with the given fatal error (the delimiter has no element in front
    /// of it, exactly as for `a,,b`); true = the list does not start here: soft failure, input rewound.
    /// The documentation admits both; nothing else (in particular no soft failure that keeps the
    /// delimiter consumed, and no success) is admitted by the property statement.
    lead_soft: bool,
    /// indices (into `trace`) of the exit events decided by that reading
    lead_exits: Vec<usize>,
    /// pending leading-delimiter decisions: (node id) whose exit event is recorded by `ev`
    lead_pending: Vec<u16>,
    /// nesting depth of combinators that turn a soft failure into success or into another attempt
    absorb: u32,
    feat: u16,
}

const MAX_TRACE: usize = 20_000;

impl<'a> Model<'a> {
    fn new(w: &'a [char], start: usize) -> Model<'a> {
        Model::with_reading(w, start, false)
    }

    fn with_reading(w: &'a [char], start: usize, lead_soft: bool) -> Model<'a> {
        Model { w, trace: Vec::with_capacity(64), start0: start, maxpos: start, nt: 0, lead_soft, lead_exits: vec![], lead_pending: vec![], absorb: 0, feat: 0 }
    }

    fn ev(&mut self, e: &E, id: u16, i: usize, ctx: Option<&str>) -> R {
        if id != NO_PROBE {
            if self.trace.len() > MAX_TRACE {
                return Err("model-trace-too-long");
            }
            self.trace.push(Ev { id, kind: ENTER, tag: 0, pos: i as u8, h: 0 });
        }
        let absorbs = matches!(e.k, K::ToOption | K::OrDefault | K::OrN | K::Or2 | K::Many(_) | K::ManyCtx(_) | K::AndThenErr(EF::Ok) | K::Surround(false) | K::Delim(..));
        if absorbs {
            self.absorb += 1;
        }
        let (out, j) = self.ev_inner(e, id, i, ctx)?;
        if absorbs {
            self.absorb -= 1;
        }
        if j > self.maxpos {
            self.maxpos = j;
        }
        if !out.is_ok() && self.maxpos > self.start0 {
            self.nt |= NT_FAIL_AFTER_CONSUME;
        }
        if id != NO_PROBE {
            let ev = match &out {
                Out::Ok(s) => Ev { id, kind: OK, tag: 0, pos: j as u8, h: fnv32(s) },
                Out::Soft(t) => Ev { id, kind: SOFT, tag: t.unwrap_or(ANYTAG), pos: j as u8, h: 0 },
                Out::Fatal(t) => Ev { id, kind: FATAL, tag: t.unwrap_or(ANYTAG), pos: j as u8, h: 0 },
            };
            if self.lead_pending.last() == Some(&id) && matches!(e.k, K::Delim(false, _)) {
                self.lead_pending.pop();
                self.lead_exits.push(self.trace.len());
            }
            self.trace.push(ev);
        }
        Ok((out, j))
    }

    fn kid(&mut self, e: &E, id: u16, j: usize, i: usize, ctx: Option<&str>) -> R {
        let kid_id = if id == NO_PROBE { NO_PROBE } else { e.kid_id(id, j) };
        self.ev(&e.c[j], kid_id, i, ctx)
    }

    fn repetition(&mut self, e: &E, id: u16, i: usize, ctx: Option<&str>, allow_none: bool, with_ctx: bool) -> R {
        let mut cur = i;
        let mut items: Vec<String> = vec![];
        // ManyCtxParser: "The context of the underlying parser is set after every iteration,
        // so that it is aware of the previously parsed element"; the default context first.
        let mut own_ctx: Option<String> = if with_ctx { Some(String::new()) } else { None };
        loop {
            let c = if with_ctx { own_ctx.as_deref() } else { ctx };
            let (o, j) = self.kid(e, id, 0, cur, c)?;
            match o {
                Out::Ok(s) => {
                    if j == cur {
                        // would loop forever by design
                        return Err("precondition:repetition-over-element-that-succeeds-without-consuming");
                    }
                    if with_ctx {
                        own_ctx = Some(s.clone());
                    }
                    items.push(s);
                    cur = j;
                }
                Out::Soft(t) => {
                    if j != cur {
                        return Err("precondition:non-rewinding-soft-failure-under-repetition");
                    }
                    if items.is_empty() && !allow_none {
                        return Ok((Out::Soft(t), cur));
                    }
                    break;
                }
                Out::Fatal(t) => return Ok((Out::Fatal(t), j)),
            }
        }
        if items.len() >= 2 {
            self.nt |= NT_REPETITION;
        }
        Ok((Out::Ok(format!("[{}]", items.join(";"))), cur))
    }

    fn ev_inner(&mut self, e: &E, id: u16, i: usize, ctx: Option<&str>) -> R {
        let w = self.w;
        let n = w.len();
        let soft0 = Out::Soft(Some(0));
        Ok(match e.k {
            // read_p: "Reads the next element of the input. Returns the default parse error upon EOF."
            K::Read => {
                if i >= n {
                    (soft0, i)
                } else {
                    (Out::Ok(w[i].to_string()), i + 1)
                }
            }
            K::PeekP => {
                if i >= n {
                    (soft0, i)
                } else {
                    (Out::Ok(w[i].to_string()), i)
                }
            }
            K::One(c) | K::OneStr(c) => {
                if i < n && w[i] == c {
                    (Out::Ok(c.to_string()), i + 1)
                } else {
                    (soft0, i)
                }
            }
            K::OneOf(s) => {
                if i < n && s.has(w[i]) {
                    (Out::Ok(w[i].to_string()), i + 1)
                } else {
                    (soft0, i)
                }
            }
            // many_str: "Parses one or more characters that match the given predicate and returns a String."
            K::ManyStr(s) => {
                let mut j = i;
                while j < n && s.has(w[j]) {
                    j += 1;
                }
                if j == i {
                    (soft0, i)
                } else {
                    if j - i >= 2 {
                        self.nt |= NT_REPETITION;
                    }
                    (Out::Ok(w[i..j].iter().collect()), j)
                }
            }
            K::Sup(t) => (Out::Ok(TEXTS[t as usize % 4].to_string()), i),
            K::Err(er) => (of_er(er), i),
            K::Ctx => match ctx {
                Some(c) => (Out::Ok(c.to_string()), i),
                None => return Err("precondition:ctx_parser-without-context"),
            },
            K::Filter(p) | K::FilterMap(p) => {
                let (o, j) = self.kid(e, id, 0, i, ctx)?;
                match o {
                    Out::Ok(s) => {
                        if p.test(&s) {
                            (Out::Ok(if matches!(e.k, K::FilterMap(_)) { format!("fm({s})") } else { s }), j)
                        } else {
                            // predicate rejection rewinds; the only error a combinator can make up is the default one
                            (soft0, i)
                        }
                    }
                    Out::Soft(t) => {
                        if j != i {
                            return Err("precondition:non-rewinding-soft-failure-under-filter");
                        }
                        (Out::Soft(t), j)
                    }
                    f => (f, j),
                }
            }
            K::Peek => {
                let (o, j) = self.kid(e, id, 0, i, ctx)?;
                match o {
                    Out::Ok(s) => (Out::Ok(s), i),
                    Out::Soft(t) => {
                        if j != i {
                            return Err("precondition:non-rewinding-soft-failure-under-peek");
                        }
                        (Out::Soft(t), j)
                    }
                    f => (f, j),
                }
            }
            K::ToOption | K::OrDefault => {
                let (o, j) = self.kid(e, id, 0, i, ctx)?;
                let opt = matches!(e.k, K::ToOption);
                match o {
                    Out::Ok(s) => (Out::Ok(if opt { format!("S({s})") } else { s }), j),
                    Out::Soft(_) => {
                        if j != i {
                            return Err("precondition:non-rewinding-soft-failure-under-optional");
                        }
                        (Out::Ok(if opt { "N".to_string() } else { String::new() }), i)
                    }
                    f => (f, j),
                }
            }
            K::Many(mk) => return self.repetition(e, id, i, ctx, mk.allow_none(), false),
            K::ManyCtx(allow_none) => return self.repetition(e, id, i, ctx, allow_none, true),
            // and_then: "even if the mapper function returns a soft error, the input is not backtracked"
            K::AndThen(p, er) => {
                let (o, j) = self.kid(e, id, 0, i, ctx)?;
                match o {
                    Out::Ok(s) => {
                        if p.test(&s) {
                            (Out::Ok(format!("{s}!")), j)
                        } else {
                            (of_er(er), j)
                        }
                    }
                    f => (f, j),
                }
            }
            // and_then_err: maps the soft error; no backtracking either
            K::AndThenErr(ef) => {
                let (o, j) = self.kid(e, id, 0, i, ctx)?;
                match o {
                    Out::Soft(_) => match ef {
                        EF::Ok => (Out::Ok("dflt".to_string()), j),
                        EF::Err(er) => (of_er(er), j),
                    },
                    o => (o, j),
                }
            }
            K::Map => {
                let (o, j) = self.kid(e, id, 0, i, ctx)?;
                match o {
                    Out::Ok(s) => (Out::Ok(format!("m({s})")), j),
                    f => (f, j),
                }
            }
            K::Unit => {
                let (o, j) = self.kid(e, id, 0, i, ctx)?;
                match o {
                    Out::Ok(_) => (Out::Ok("()".to_string()), j),
                    f => (f, j),
                }
            }
            // with_soft_err / with_expected_message: soft error replaced by the given (soft) error
            K::SoftErr(k) | K::ExpectedMsg(k) => {
                let (o, j) = self.kid(e, id, 0, i, ctx)?;
                match o {
                    Out::Soft(_) => (Out::Soft(Some(k)), j),
                    o => (o, j),
                }
            }
            // or_fail / or_expected: soft error replaced by the given fatal error
            K::OrFail(k) | K::OrExpected(k) => {
                let (o, j) = self.kid(e, id, 0, i, ctx)?;
                match o {
                    Out::Soft(_) => (Out::Fatal(Some(k)), j),
                    o => (o, j),
                }
            }
            // map_fatal_err: "If the parser returns a soft error, the error is returned as-is.
            // If the parser returns a fatal error, it is replaced by the given error."
            K::MapFatal(k) => {
                let (o, j) = self.kid(e, id, 0, i, ctx)?;
                match o {
                    Out::Fatal(_) => (Out::Fatal(Some(k)), j),
                    o => (o, j),
                }
            }
            K::ToFatal => {
                let (o, j) = self.kid(e, id, 0, i, ctx)?;
                (o.to_fatal(), j)
            }
            K::Lazy | K::Boxed => return self.kid(e, id, 0, i, ctx),
            K::NoCtx => return self.kid(e, id, 0, i, None),
            K::MapCtx => {
                let c = ctx.map(rot);
                return self.kid(e, id, 0, i, c.as_deref());
            }
            // flatten: "if the current parser's output is a parser, it returns the result of that inner parser"
            K::FlatLit => {
                let (o, j) = self.kid(e, id, 0, i, ctx)?;
                match o {
                    Out::Ok(s) => {
                        let inner = lit_expr(&s);
                        return self.ev(&inner, NO_PROBE, j, None);
                    }
                    f => (f, j),
                }
            }
            K::FlatIf(p) => {
                let (o, j) = self.kid(e, id, 0, i, ctx)?;
                match o {
                    Out::Ok(s) => {
                        let which = if p.test(&s) { 1 } else { 2 };
                        return self.kid(e, id, which, j, None);
                    }
                    f => (f, j),
                }
            }
            // and: "If the right side fails with a soft error, parsing of the left side is undone."
            K::And(ak) => {
                let (l, j) = self.kid(e, id, 0, i, ctx)?;
                let ls = match l {
                    Out::Ok(s) => s,
                    Out::Soft(t) => {
                        if j != i {
                            return Err("precondition:non-rewinding-soft-failure-left-of-and");
                        }
                        return Ok((Out::Soft(t), j));
                    }
                    f => return Ok((f, j)),
                };
                let (r, j2) = self.kid(e, id, 1, j, ctx)?;
                match r {
                    Out::Ok(rs) => (Out::Ok(ak.combine(&ls, &rs)), j2),
                    Out::Soft(t) => (Out::Soft(t), i),
                    f => (f, j2),
                }
            }
            // two-way or: relies on the left side not consuming on a soft failure
            K::Or2 => {
                let (l, j) = self.kid(e, id, 0, i, ctx)?;
                match l {
                    Out::Soft(_) => {
                        if j != i {
                            return Err("precondition:non-rewinding-soft-failure-under-two-way-or");
                        }
                        self.nt |= NT_FELL_THROUGH;
                        let (r, j2) = self.kid(e, id, 1, i, ctx)?;
                        if matches!(r, Out::Soft(_)) && j2 != i {
                            return Err("precondition:non-rewinding-soft-failure-under-two-way-or");
                        }
                        (r, j2)
                    }
                    o => (o, j),
                }
            }
            // OrParser: first alternative that succeeds from the original position
            K::OrN => {
                let last = e.c.len() - 1;
                for a in 0..=last {
                    if a > 0 {
                        self.nt |= NT_FELL_THROUGH;
                    }
                    let (o, j) = self.kid(e, id, a, i, ctx)?;
                    match o {
                        Out::Soft(t) => {
                            if a == last {
                                if j != i {
                                    return Err("precondition:non-rewinding-soft-failure-last-alternative");
                                }
                                return Ok((Out::Soft(t), i));
                            }
                            // restored before the next alternative
                        }
                        o => return Ok((o, j)),
                    }
                }
                unreachable!()
            }
            K::Delim(allow_missing, k) => {
                let mut cur = i;
                let mut items: Vec<String> = vec![];
                // 0 nothing, 1 value, 2 delimiter
                let mut last = 0u8;
                loop {
                    let (o, j) = self.kid(e, id, 0, cur, ctx)?;
                    let have = match o {
                        Out::Ok(s) => {
                            items.push(if allow_missing { format!("S({s})") } else { s });
                            last = 1;
                            cur = j;
                            true
                        }
                        Out::Soft(_) => {
                            if j != cur {
                                return Err("precondition:non-rewinding-soft-failure-under-delimited");
                            }
                            false
                        }
                        f => return Ok((f, j)),
                    };
                    let (o, j) = self.kid(e, id, 1, cur, ctx)?;
                    match o {
                        Out::Ok(_) => {
                            if j == cur {
                                return Err("precondition:delimiter-succeeds-without-consuming");
                            }
                            if !have {
                                if allow_missing {
                                    self.feat |= F_MISSING;
                                    items.push("N".to_string());
                                } else if last == 0 {
                                    // A delimiter before the first element. "Missing elements are not
                                    // supported" (NormalElementCollector) and the property statement leave two
                                    // readings: the given fatal error (no element in front of the delimiter),
                                    // or "no list here" = soft failure with the input rewound. `lead_soft`
                                    // selects the reading; run_case accepts the real parser under either.
                                    self.feat |= F_LEAD;
                                    // absorb counts this node itself
                                    if self.absorb > 1 {
                                        self.feat |= F_LEAD_ABSORB;
                                    }
                                    // Is the leading delimiter also a TRAILING one (no element after it)? Then the
                                    // error value is documented ("the given error"); otherwise only "fatal" is.
                                    // Pure look-ahead on a scratch model, nothing is recorded.
                                    let mut scratch = Model::with_reading(w, j, self.lead_soft);
                                    let trailing_too = match scratch.ev(&e.c[0], NO_PROBE, j, ctx) {
                                        Ok((Out::Ok(_), _)) => {
                                            self.feat |= F_LEAD_THEN_ELEMENT;
                                            false
                                        }
                                        Ok((Out::Soft(_), _)) => true,
                                        _ => false,
                                    };
                                    if id != NO_PROBE {
                                        self.lead_pending.push(id);
                                    }
                                    if self.lead_soft {
                                        return Ok((Out::Soft(None), i));
                                    }
                                    return Ok((Out::Fatal(if trailing_too { Some(k) } else { None }), j));
                                } else {
                                    // a delimiter that is not followed by an element
                                    self.feat |= F_DOUBLED;
                                    return Ok((Out::Fatal(Some(k)), j));
                                }
                            }
                            last = 2;
                            cur = j;
                        }
                        Out::Soft(_) => {
                            if j != cur {
                                return Err("precondition:non-rewinding-soft-failure-under-delimited");
                            }
                            break;
                        }
                        f => {
                            if !have && last == 2 {
                                return Err("undocumented:fatal-delimiter-after-trailing-delimiter");
                            }
                            return Ok((f, j));
                        }
                    }
                }
                if items.len() >= 2 {
                    self.nt |= NT_REPETITION;
                    self.feat |= F_LIST2;
                }
                match last {
                    // which soft error is returned is not documented
                    0 => (Out::Soft(None), cur),
                    1 => (Out::Ok(format!("[{}]", items.join(","))), cur),
                    _ => {
                        self.feat |= F_TRAILING;
                        (Out::Fatal(Some(k)), cur)
                    }
                }
            }
            // seqN: the first may fail softly, "the rest must succeed": any later error is fatal
            K::Seq => {
                let mut cur = i;
                let mut parts: Vec<String> = vec![];
                for a in 0..e.c.len() {
                    let (o, j) = self.kid(e, id, a, cur, ctx)?;
                    match o {
                        Out::Ok(s) => {
                            parts.push(s);
                            cur = j;
                        }
                        o => {
                            if a == 0 {
                                if matches!(o, Out::Soft(_)) && j != i {
                                    return Err("precondition:non-rewinding-soft-failure-first-of-seq");
                                }
                                return Ok((o, j));
                            }
                            return Ok((o.to_fatal(), j));
                        }
                    }
                }
                (Out::Ok(format!("<{}>", parts.join("|"))), cur)
            }
            // then_with_in_context: right side sees the left output as context; its errors are fatal
            K::ThenWith(ak) => {
                let (l, j) = self.kid(e, id, 0, i, ctx)?;
                let ls = match l {
                    Out::Ok(s) => s,
                    o => {
                        if matches!(o, Out::Soft(_)) && j != i {
                            return Err("precondition:non-rewinding-soft-failure-left-of-then_with");
                        }
                        return Ok((o, j));
                    }
                };
                let (r, j2) = self.kid(e, id, 1, j, Some(&ls))?;
                match r {
                    Out::Ok(rs) => (Out::Ok(ak.combine(&ls, &rs)), j2),
                    o => (o.to_fatal(), j2),
                }
            }
            K::Iif(p) => match ctx {
                None => return Err("precondition:iif_ctx-without-context"),
                Some(c) => {
                    let which = if p.test(c) { 0 } else { 1 };
                    return self.kid(e, id, which, i, None);
                }
            },
            K::Surround(mandatory) => {
                let (l, j) = self.kid(e, id, 0, i, ctx)?;
                let mut cur = i;
                match l {
                    Out::Ok(_) => cur = j,
                    Out::Soft(t) => {
                        if j != i {
                            return Err("precondition:non-rewinding-soft-failure-of-surround-boundary");
                        }
                        if mandatory {
                            // "If the left boundary is missing, a soft error is returned."
                            return Ok((Out::Soft(t), j));
                        }
                    }
                    f => return Ok((f, j)),
                }
                let (m, j) = self.kid(e, id, 1, cur, ctx)?;
                let ms = match m {
                    Out::Ok(s) => {
                        cur = j;
                        s
                    }
                    Out::Soft(t) => {
                        if mandatory {
                            // "If the main content is missing, a fatal error is returned."
                            return Ok((Out::Fatal(t), j));
                        }
                        // "a soft error is returned, and the left boundary is reverted"
                        return Ok((Out::Soft(t), i));
                    }
                    f => return Ok((f, j)),
                };
                let (r, j) = self.kid(e, id, 2, cur, ctx)?;
                match r {
                    Out::Ok(_) => cur = j,
                    Out::Soft(t) => {
                        if mandatory {
                            // "If the right boundary is missing, a fatal error is returned."
                            return Ok((Out::Fatal(t), j));
                        }
                        if j != cur {
                            return Err("precondition:non-rewinding-soft-failure-of-surround-boundary");
                        }
                    }
                    f => return Ok((f, j)),
                }
                (Out::Ok(ms), cur)
            }
        })
    }
}

// ---------------------------------------------------------------------------
// one case: model, real run, comparison, direct invariants
// ---------------------------------------------------------------------------

struct NodeInfo {
    k: K,
    kids: Vec<u16>,
}

fn node_infos(e: &E) -> Vec<NodeInfo> {
    fn walk(e: &E, id: u16, v: &mut Vec<NodeInfo>) {
        debug_assert_eq!(v.len(), id as usize);
        v.push(NodeInfo { k: e.k, kids: (0..e.c.len()).map(|j| e.kid_id(id, j)).collect() });
        for (j, c) in e.c.iter().enumerate() {
            walk(c, e.kid_id(id, j), v);
        }
    }
    let mut v = Vec::with_capacity(e.sz as usize);
    walk(e, 0, &mut v);
    v
}

pub struct Prepared {
    e: E,
    text: String,
    info: Vec<NodeInfo>,
    parser: Option<Probe>,
    /// context-carrying parsers keep state between runs: rebuild for every input
    fresh: bool,
}

impl Prepared {
    pub fn new(e: E) -> Prepared {
        let sc = scoping(&e);
        Prepared { text: e.show(), info: node_infos(&e), parser: None, fresh: sc.uses_ctx, e }
    }
}

pub enum CaseResult {
    Discard(&'static str),
    /// non-trivial flags, outcome class (OK/SOFT/FATAL), delimited-list features
    Done(u8, u8, u16),
    Fail(Box<Violation>),
}

fn class_name(k: u8) -> &'static str {
    match k {
        OK => "ok",
        SOFT => "soft",
        FATAL => "fatal",
        _ => "enter",
    }
}

fn show_word(w: &[char]) -> String {
    w.iter().collect()
}

fn show_ev(ev: &Ev) -> String {
    match ev.kind {
        ENTER => format!("enter#{}@{}", ev.id, ev.pos),
        OK => format!("#{}=Ok[{:08x}]@{}", ev.id, ev.h, ev.pos),
        SOFT => format!("#{}=Soft({})@{}", ev.id, if ev.tag == ANYTAG { "?".to_string() } else { ev.tag.to_string() }, ev.pos),
        _ => format!("#{}=Fatal({})@{}", ev.id, if ev.tag == ANYTAG { "?".to_string() } else { ev.tag.to_string() }, ev.pos),
    }
}

fn show_trace(t: &[Ev]) -> String {
    let mut s: Vec<String> = t.iter().take(60).map(show_ev).collect();
    if t.len() > 60 {
        s.push(format!("... {} more", t.len() - 60));
    }
    s.join(" ")
}

/// Model event `m` against real event `r`. The position after a fatal error is not defined by the documentation.
fn ev_diff(m: &Ev, r: &Ev) -> Option<&'static str> {
    if m.id != r.id || (m.kind == ENTER) != (r.kind == ENTER) {
        return Some("call-sequence");
    }
    if m.kind != r.kind {
        return Some("outcome");
    }
    match m.kind {
        ENTER => (m.pos != r.pos).then_some("start-position"),
        OK => {
            if m.h != r.h {
                Some("output")
            } else if m.pos != r.pos {
                Some("position")
            } else {
                None
            }
        }
        SOFT => {
            if m.pos != r.pos {
                Some("position")
            } else if m.tag != ANYTAG && m.tag != r.tag {
                Some("error-value")
            } else {
                None
            }
        }
        _ => (m.tag != ANYTAG && m.tag != r.tag).then_some("error-value"),
    }
}

struct Call {
    id: u16,
    start: u8,
    kind: u8,
    end: u8,
    h: u32,
}

impl Call {
    fn dirty_soft(&self) -> bool {
        self.kind == SOFT && self.end != self.start
    }
}

/// The invariants the property statement lists, asserted on the real call tree only.
fn check_invariants(info: &[NodeInfo], tr: &[Ev]) -> Result<(), (u16, &'static str)> {
    let mut pending: Vec<Call> = Vec::with_capacity(16);
    let mut frames: Vec<(u16, u8, usize)> = Vec::with_capacity(16);
    for ev in tr {
        if ev.kind == ENTER {
            frames.push((ev.id, ev.pos, pending.len()));
            continue;
        }
        let Some((id, start, base)) = frames.pop() else {
            return Err((ev.id, "exit-without-entry"));
        };
        if id != ev.id {
            return Err((ev.id, "exit-without-entry"));
        }
        let ni = &info[id as usize];
        node_invariants(ni, start, ev, &pending[base..]).map_err(|w| (id, w))?;
        pending.truncate(base);
        pending.push(Call { id, start, kind: ev.kind, end: ev.pos, h: ev.h });
    }
    Ok(())
}

fn node_invariants(ni: &NodeInfo, start: u8, ex: &Ev, kids: &[Call]) -> Result<(), &'static str> {
    let end = ex.pos;
    // a successful parse never moves the position backwards
    if ex.kind == OK && end < start {
        return Err("success-moved-position-backwards");
    }
    // a fatal error is never swallowed or downgraded
    if let Some(p) = kids.iter().position(|c| c.kind == FATAL) {
        if p + 1 != kids.len() {
            return Err("parsing-continued-after-fatal-error");
        }
        if ex.kind != FATAL {
            return Err(if ex.kind == OK { "fatal-error-swallowed" } else { "fatal-error-downgraded-to-soft" });
        }
        return Ok(());
    }
    let any_dirty = kids.iter().any(|c| c.dirty_soft());
    match ni.k {
        K::One(_) | K::OneOf(_) | K::OneStr(_) | K::ManyStr(_) | K::Read | K::PeekP => {
            if ex.kind == SOFT && end != start {
                return Err("soft-failure-consumed-input");
            }
            if matches!(ni.k, K::PeekP) && end != start {
                return Err("peek-consumed-input");
            }
        }
        K::And(_) => {
            if ex.kind == SOFT && !kids.first().map(|c| c.dirty_soft()).unwrap_or(false) && end != start {
                return Err("soft-failure-did-not-restore-position");
            }
        }
        K::Filter(_) | K::FilterMap(_) => {
            if ex.kind == SOFT && !any_dirty && end != start {
                return Err("soft-failure-did-not-restore-position");
            }
        }
        K::Peek => {
            if ex.kind == OK && end != start {
                return Err("peek-consumed-input");
            }
            if ex.kind == SOFT && !any_dirty && end != start {
                return Err("soft-failure-did-not-restore-position");
            }
        }
        K::ToOption | K::OrDefault => {
            if let Some(c) = kids.last() {
                if c.kind == SOFT && !c.dirty_soft() {
                    if ex.kind != OK {
                        return Err("optional-did-not-absorb-soft-failure");
                    }
                    if end != start {
                        return Err("soft-failure-did-not-restore-position");
                    }
                }
            }
        }
        K::OrN | K::Or2 => {
            // alternatives are tried in order, each from the original position
            for (a, c) in kids.iter().enumerate() {
                if ni.kids.get(a) != Some(&c.id) {
                    return Err("choice-alternatives-not-tried-in-order");
                }
                if c.start != start && (matches!(ni.k, K::OrN) || !any_dirty) {
                    return Err("choice-alternative-not-tried-from-original-position");
                }
                if a + 1 < kids.len() && c.kind != SOFT {
                    return Err("choice-went-on-after-a-decisive-alternative");
                }
            }
            let Some(lastc) = kids.last() else {
                return Err("choice-tried-no-alternative");
            };
            match ex.kind {
                OK => {
                    if lastc.kind != OK || lastc.h != ex.h || lastc.end != end {
                        return Err("choice-result-is-not-the-first-successful-alternative");
                    }
                }
                SOFT => {
                    if kids.len() != ni.kids.len() {
                        return Err("choice-failed-without-trying-every-alternative");
                    }
                    if !lastc.dirty_soft() && !(matches!(ni.k, K::Or2) && any_dirty) && end != start {
                        return Err("soft-failure-did-not-restore-position");
                    }
                }
                _ => {}
            }
        }
        K::Many(_) | K::ManyCtx(_) => {
            let allow_none = match ni.k {
                K::Many(mk) => mk.allow_none(),
                K::ManyCtx(a) => a,
                _ => false,
            };
            let Some(lastc) = kids.last() else {
                return Err("repetition-made-no-attempt");
            };
            let oks = kids.iter().filter(|c| c.kind == OK).count();
            // exactly the maximal run: it stops at, and only at, the first failing attempt
            if lastc.kind != SOFT || oks + 1 != kids.len() {
                return Err("repetition-is-not-the-maximal-run-of-successes");
            }
            match ex.kind {
                OK => {
                    if oks == 0 && !allow_none {
                        return Err("repetition-succeeded-without-an-element");
                    }
                    if !lastc.dirty_soft() && end != lastc.start {
                        return Err("repetition-position-not-after-last-success");
                    }
                }
                SOFT => {
                    if oks != 0 || allow_none {
                        return Err("repetition-failed-despite-successes");
                    }
                    if !lastc.dirty_soft() && end != start {
                        return Err("soft-failure-did-not-restore-position");
                    }
                }
                _ => return Err("repetition-turned-soft-failure-into-fatal"),
            }
        }
        K::Surround(false) => {
            let boundary_dirty = kids.iter().any(|c| c.dirty_soft() && Some(&c.id) != ni.kids.get(1));
            if ex.kind == SOFT && !boundary_dirty && end != start {
                return Err("soft-failure-did-not-restore-position");
            }
        }
        K::Delim(allow_missing, k) => {
            // delimited lists reject a trailing delimiter with the given fatal error
            if let Some(c) = kids.iter().rev().find(|c| c.kind == OK) {
                if Some(&c.id) == ni.kids.get(1) && !any_dirty && !(ex.kind == FATAL && ex.tag == k) {
                    // a delimiter before the first element of `delimited_by`: either a fatal error (which one is
                    // documented for trailing delimiters only), or "no list here" - a soft failure that leaves
                    // the input where it started
                    let leading = !allow_missing && !kids.iter().any(|c| c.kind == OK && Some(&c.id) == ni.kids.first());
                    if !leading {
                        return Err("trailing-delimiter-not-rejected-with-the-given-fatal-error");
                    }
                    if ex.kind != FATAL && !(ex.kind == SOFT && end == start) {
                        return Err(if ex.kind == SOFT { "leading-delimiter-soft-failure-consumed-the-delimiter" } else { "leading-delimiter-accepted" });
                    }
                }
            }
            if ex.kind == SOFT && !any_dirty && end != start {
                return Err("soft-failure-did-not-restore-position");
            }
        }
        _ => {}
    }
    Ok(())
}

fn real_result_show(r: &Result<String, TE>) -> String {
    match r {
        Ok(s) => format!("Ok({:?})", s),
        Err(TE::Soft(k)) => format!("Soft({})", k),
        Err(TE::Fatal(k)) => format!("Fatal({})", k),
    }
}

fn case_inputs(p: &Prepared, w: &[char], start: usize) -> Value {
    json!({"expr": p.text, "input": show_word(w), "start": start})
}

/// Runs one (expression, input, start position) case.
pub fn run_case(p: &mut Prepared, w: &[char], start: usize) -> CaseResult {
    let mut m = Model::new(w, start);
    let (mut mout, mut mpos) = match m.ev(&p.e, 0, start, None) {
        Err(reason) => return CaseResult::Discard(reason),
        Ok(x) => x,
    };
    // a leading delimiter under `delimited_by` has a second admissible reading (soft failure, rewound)
    let mut alt: Option<(Model, Out, usize)> = None;
    // ... under which the case may be undetermined (precondition violated further up): (model, reason)
    let mut alt_undetermined: Option<(Model, &'static str)> = None;
    if m.feat & F_LEAD != 0 {
        let mut mb = Model::with_reading(w, start, true);
        match mb.ev(&p.e, 0, start, None) {
            Ok((o, j)) => alt = Some((mb, o, j)),
            Err(reason) => alt_undetermined = Some((mb, reason)),
        }
    }
    let model_len = m.trace.len().max(alt.as_ref().map(|a| a.0.trace.len()).unwrap_or(0));
    if p.fresh || p.parser.is_none() {
        p.parser = Some(build(&p.e, 0));
    }
    let parser = p.parser.as_mut().unwrap();
    let mut input = TI::new(w, start);
    TRACE.with(|t| t.borrow_mut().clear());
    FUEL.with(|f| f.set(128 + 48 * model_len as u64));
    let r = panics::guarded(|| parser.parse(&mut input));
    let real: Vec<Ev> = TRACE.with(|t| std::mem::take(&mut *t.borrow_mut()));
    let give_back = |real: Vec<Ev>| TRACE.with(|t| *t.borrow_mut() = real);
    if let Some((mb, reason)) = &alt_undetermined {
        // Both readings agree up to the first leading delimiter. A real parser that takes the soft-rewound
        // reading there is in a case that reading leaves undetermined: discard (never on a parser that
        // answers with the fatal error, as the unchanged tree does).
        if let Some(&ix) = mb.lead_exits.first() {
            if ix < real.len() && ix < mb.trace.len() && (0..=ix).all(|q| ev_diff(&mb.trace[q], &real[q]).is_none()) {
                if r.is_err() {
                    p.parser = None;
                }
                let reason = *reason;
                give_back(real);
                return CaseResult::Discard(reason);
            }
        }
    }
    let r = match r {
        Err(pi) => {
            // parser state is unknown after an unwinding
            p.parser = None;
            let culprit = real.iter().rev().find(|e| e.kind == ENTER).map(|e| p.info[e.id as usize].k.name()).unwrap_or("?");
            let sig = if pi.msg.contains("not implemented") && pi.loc.contains("seq.rs") {
                "seq-set-context-unimplemented".to_string()
            } else if pi.msg.contains("c20-fuel-exhausted") {
                format!("{}:does-not-terminate", p.info[0].k.name())
            } else {
                format!("panic-under-{}:{}", culprit, pi.sig())
            };
            let v = Violation::new(sig, format!("the parser panicked ({} at {}) where the documented semantics give {} at position {}", pi.msg, pi.loc, mout.show(), mpos), case_inputs(p, w, start))
                .exp_obs(json!({"result": mout.show(), "position": mpos}), json!({"panic": pi.msg, "at": pi.loc, "trace": show_trace(&real)}));
            give_back(real);
            return CaseResult::Fail(Box::new(v));
        }
        Ok(r) => r,
    };
    // node-by-node comparison (the last event is the top-level result and position)
    let mut diff = trace_diff(&m.trace, &real);
    if diff.is_some() {
        if let Some((mb, o, j)) = alt.take() {
            let same_text = match (&o, &r) {
                (Out::Ok(a), Ok(b)) => a == b,
                _ => true,
            };
            if same_text && trace_diff(&mb.trace, &real).is_none() {
                // the real parser follows the other admissible reading, consistently
                m = mb;
                m.feat |= F_ALT_READING;
                mout = o;
                mpos = j;
                diff = None;
            }
        }
    }
    let mt = &m.trace;
    // debugging aid for sensitivity runs: C20_INVARIANTS_ONLY=1 skips the model comparison so that the
    // direct invariants can be shown to catch a mutant on their own
    static INV_ONLY: std::sync::OnceLock<bool> = std::sync::OnceLock::new();
    if *INV_ONLY.get_or_init(|| std::env::var("C20_INVARIANTS_ONLY").is_ok()) {
        diff = None;
    }
    if let Some((idx, what)) = diff {
        let me = mt.get(idx);
        let re = real.get(idx);
        // a child that is entered at the wrong position, or a wrong sequence of calls, is the doing of the
        // enclosing combinator; a wrong exit is the doing of the node itself
        let node = if what == "start-position" || what == "call-sequence" {
            let mut stack: Vec<u16> = vec![];
            for ev in real.iter().take(idx) {
                if ev.kind == ENTER {
                    stack.push(ev.id);
                } else {
                    stack.pop();
                }
            }
            stack.last().copied().unwrap_or(0)
        } else {
            re.or(me).map(|e| e.id).unwrap_or(0)
        };
        let k = p.info[node as usize].k;
        let detail = match (me, re) {
            (Some(a), Some(b)) if what == "outcome" => format!("{}-where-{}-documented", class_name(b.kind), class_name(a.kind)),
            (Some(a), _) if what == "position" => format!("position-after-{}", class_name(a.kind)),
            _ if what == "start-position" => "child-started-at-wrong-position".to_string(),
            _ => what.to_string(),
        };
        let sig = match (k, me, re) {
            (K::MapFatal(_), Some(a), Some(b)) if a.kind == SOFT && b.kind == FATAL => "map_fatal_err-maps-soft".to_string(),
            // the exit of a `delimited_by` that met a delimiter before its first element (neither a fatal
            // error nor a rewound soft failure, the two readings the documentation admits)
            (K::Delim(false, _), Some(_), Some(b)) if m.lead_exits.contains(&idx) => format!(
                "delimited_by:leading-delimiter:{}",
                match b.kind {
                    OK => "accepted",
                    SOFT => "soft-failure-keeps-the-delimiter-consumed",
                    ENTER => "parsing-went-on",
                    _ => "wrong-fatal-error",
                }
            ),
            _ => format!("{}:{}", k.name(), detail),
        };
        let what = if sig.starts_with("delimited_by:leading-delimiter:") {
            format!(
                "`delimited_by` (node #{}, missing elements not supported) met a delimiter before its first element: the documentation admits a fatal error (the given one when no element follows the delimiter either), or a soft failure that leaves the input where it started; observed {}",
                node,
                re.map(show_ev).unwrap_or_default()
            )
        } else {
            format!("combinator `{}` (node #{}) deviates from its documented behaviour: {}", k.name(), node, detail)
        };
        let v = Violation::new(sig, what, case_inputs(p, w, start))
        .exp_obs(
            json!({"result": mout.show(), "position": mpos, "node_event": me.map(show_ev), "trace": show_trace(mt)}),
            json!({"result": real_result_show(&r), "position": input.pos, "node_event": re.map(show_ev), "trace": show_trace(&real)}),
        );
        give_back(real);
        return CaseResult::Fail(Box::new(v));
    }
    // belt and braces: the top-level text (the trace holds its hash only)
    if let (Out::Ok(a), Ok(b)) = (&mout, &r) {
        if a != b && !*INV_ONLY.get().unwrap_or(&false) {
            let v = Violation::new(format!("{}:output", p.info[0].k.name()), "output text differs from the documented semantics", case_inputs(p, w, start)).exp_obs(json!(a), json!(b));
            give_back(real);
            return CaseResult::Fail(Box::new(v));
        }
    }
    if let Err((node, what)) = check_invariants(&p.info, &real) {
        let k = p.info[node as usize].k;
        let v = Violation::new(format!("inv:{}:{}", k.name(), what), format!("invariant of the property statement broken at `{}` (node #{}): {}", k.name(), node, what), case_inputs(p, w, start))
            .exp_obs(json!({"result": mout.show(), "position": mpos}), json!({"result": real_result_show(&r), "position": input.pos, "trace": show_trace(&real)}));
        give_back(real);
        return CaseResult::Fail(Box::new(v));
    }
    give_back(real);
    let class = match mout {
        Out::Ok(_) => OK,
        Out::Soft(_) => SOFT,
        Out::Fatal(_) => FATAL,
    };
    CaseResult::Done(m.nt, class, m.feat)
}

fn trace_diff(mt: &[Ev], real: &[Ev]) -> Option<(usize, &'static str)> {
    for idx in 0..mt.len().max(real.len()) {
        match (mt.get(idx), real.get(idx)) {
            (Some(a), Some(b)) => {
                if let Some(what) = ev_diff(a, b) {
                    return Some((idx, what));
                }
            }
            _ => return Some((idx, "call-sequence")),
        }
    }
    None
}

// ---------------------------------------------------------------------------
// statistics kept locally (10^8 cases: no per-case map lookups on strings)
// ---------------------------------------------------------------------------

#[derive(Default)]
struct Agg {
    classes: BTreeMap<&'static str, u64>,
    discards: BTreeMap<&'static str, u64>,
    evals: u64,
}

impl Agg {
    fn class(&mut self, k: &'static str, n: u64) {
        if n > 0 {
            *self.classes.entry(k).or_insert(0) += n;
        }
    }
    fn flush(&mut self, sh: &mut Shard) {
        sh.evals(self.evals);
        for (k, v) in &self.classes {
            sh.class_n(k, *v);
        }
        for (k, v) in &self.discards {
            // `Shard::discard` counts one at a time
            *sh.stats.discards.entry(k.to_string()).or_insert(0) += *v;
        }
        *self = Agg::default();
    }
}

fn nt_class(nt: u8) -> [(&'static str, bool); 3] {
    [("nt:failure-after-consuming", nt & NT_FAIL_AFTER_CONSUME != 0), ("nt:repetition>=2", nt & NT_REPETITION != 0), ("nt:choice-fell-through", nt & NT_FELL_THROUGH != 0)]
}

/// Runs one expression over a list of (input, start) cases. Returns false when the shard should stop.
fn run_expr(sh: &mut Shard, agg: &mut Agg, e: E, cases: &mut dyn Iterator<Item = (&[char], usize)>, part: &'static str, coarse: bool) -> bool {
    let mut p = Prepared::new(e);
    sh.journal(&p.text);
    let mut ran = 0u64;
    let mut seen_nt = 0u8;
    let mut go = true;
    for (w, start) in cases {
        match run_case(&mut p, w, start) {
            CaseResult::Discard(reason) => *agg.discards.entry(reason).or_insert(0) += 1,
            CaseResult::Done(nt, class, feat) => {
                ran += 1;
                if feat != 0 {
                    for (name, on) in feat_class(feat) {
                        if on {
                            agg.class(name, 1);
                        }
                    }
                }
                agg.class(
                    match class {
                        OK => "outcome:ok",
                        SOFT => "outcome:soft",
                        _ => "outcome:fatal",
                    },
                    1,
                );
                if nt != 0 {
                    agg.class("nontrivial-case", 1);
                    for (name, on) in nt_class(nt) {
                        if on {
                            agg.class(name, 1);
                        }
                    }
                    let nt_key = if coarse { 0 } else { nt };
                    if seen_nt & (1 << nt_key) == 0 {
                        seen_nt |= 1 << nt_key;
                        sh.nontrivial(hash64(&(&p.text, nt_key)));
                    }
                }
            }
            CaseResult::Fail(v) => {
                ran += 1;
                if !sh.report(Err(*v)) {
                    go = false;
                    break;
                }
            }
        }
    }
    agg.evals += ran;
    agg.class(part, ran);
    let mut names: Vec<&'static str> = p.info.iter().map(|n| n.k.name()).collect();
    names.sort();
    names.dedup();
    for n in names {
        agg.class(kind_class(n), ran);
    }
    if ran > 0 {
        sh.sample_sparse(7919, || json!({"expr": p.text, "cases_run": ran, "part": part}));
    }
    go
}

fn kind_class(name: &'static str) -> &'static str {
    // "uses:<combinator>" histogram keys, interned once
    thread_local! { static NAMES: RefCell<BTreeMap<&'static str, &'static str>> = const { RefCell::new(BTreeMap::new()) }; }
    NAMES.with(|m| *m.borrow_mut().entry(name).or_insert_with(|| Box::leak(format!("uses:{}", name).into_boxed_str())))
}

// ---------------------------------------------------------------------------
// bounded-exhaustive enumeration
// ---------------------------------------------------------------------------

struct Space {
    leaves: Vec<E>,
    /// kinds by number of children (index 1..=4)
    by_arity: [Vec<K>; 5],
    memo: BTreeMap<(u16, u8), std::rc::Rc<Vec<E>>>,
}

impl Space {
    fn new() -> Space {
        let leaves: Vec<E> = [
            K::Read,
            K::PeekP,
            K::One('a'),
            K::One('b'),
            K::OneOf(CS(3)),
            K::OneStr('c'),
            K::ManyStr(CS(3)),
            K::Sup(0),
            K::Err(Er::S(1)),
            K::Err(Er::F(2)),
            K::Ctx,
        ]
        .into_iter()
        .map(E::leaf)
        .collect();
        let unary = vec![
            K::Filter(Pred::NotA),
            K::FilterMap(Pred::NotA),
            K::Peek,
            K::ToOption,
            K::OrDefault,
            K::Many(MK::Many),
            K::Many(MK::ManyNone),
            K::Many(MK::OneOrMore),
            K::Many(MK::ZeroOrMore),
            K::ManyCtx(false),
            K::ManyCtx(true),
            K::AndThen(Pred::NotA, Er::S(3)),
            K::AndThen(Pred::NotA, Er::F(4)),
            K::AndThenErr(EF::Ok),
            K::AndThenErr(EF::Err(Er::S(5))),
            K::AndThenErr(EF::Err(Er::F(6))),
            K::Map,
            K::Unit,
            K::SoftErr(7),
            K::OrFail(8),
            K::OrExpected(9),
            K::ExpectedMsg(10),
            K::MapFatal(12),
            K::ToFatal,
            K::Lazy,
            K::Boxed,
            K::NoCtx,
            K::MapCtx,
            K::FlatLit,
            K::OrN,
        ];
        let binary = vec![
            K::And(AK::Fun),
            K::And(AK::Tuple),
            K::And(AK::Left),
            K::And(AK::Right),
            K::And(AK::Concat),
            K::Or2,
            K::OrN,
            K::Delim(false, 13),
            K::Delim(true, 13),
            K::Seq,
            K::ThenWith(AK::Fun),
            K::ThenWith(AK::Right),
            K::Iif(Pred::NotA),
        ];
        let ternary = vec![K::OrN, K::Seq, K::FlatIf(Pred::NotA), K::Surround(false), K::Surround(true)];
        let quaternary = vec![K::Seq];
        Space { leaves, by_arity: [vec![], unary, binary, ternary, quaternary], memo: BTreeMap::new() }
    }

    /// All expressions with exactly `size` nodes and depth <= `depth` (materialised).
    fn table(&mut self, size: u16, depth: u8) -> std::rc::Rc<Vec<E>> {
        if let Some(t) = self.memo.get(&(size, depth)) {
            return t.clone();
        }
        let mut out = vec![];
        if size == 1 {
            out = self.leaves.clone();
        } else if depth > 0 {
            self.compose(size, depth, &mut |e| {
                out.push(e);
                true
            });
        }
        let rc = std::rc::Rc::new(out);
        self.memo.insert((size, depth), rc.clone());
        rc
    }

    /// Streams all expressions with exactly `size` (> 1) nodes and depth <= `depth`; children come from tables.
    fn compose(&mut self, size: u16, depth: u8, f: &mut dyn FnMut(E) -> bool) -> bool {
        if size < 2 || depth == 0 {
            return true;
        }
        let rest = size - 1;
        for arity in 1..=4usize {
            if (rest as usize) < arity {
                break;
            }
            let kinds = self.by_arity[arity].clone();
            for sizes in compositions(rest, arity) {
                let tabs: Vec<std::rc::Rc<Vec<E>>> = sizes.iter().map(|s| self.table(*s, depth - 1)).collect();
                if tabs.iter().any(|t| t.is_empty()) {
                    continue;
                }
                let mut idx = vec![0usize; arity];
                'product: loop {
                    for k in &kinds {
                        let kids: Vec<E> = (0..arity).map(|j| tabs[j][idx[j]].clone()).collect();
                        if !f(E::new(*k, kids)) {
                            return false;
                        }
                    }
                    let mut j = arity;
                    loop {
                        if j == 0 {
                            break 'product;
                        }
                        j -= 1;
                        idx[j] += 1;
                        if idx[j] < tabs[j].len() {
                            break;
                        }
                        idx[j] = 0;
                    }
                }
            }
        }
        true
    }
}

fn compositions(total: u16, parts: usize) -> Vec<Vec<u16>> {
    if parts == 1 {
        return vec![vec![total]];
    }
    let mut v = vec![];
    for first in 1..=(total - (parts as u16 - 1)) {
        for mut rest in compositions(total - first, parts - 1) {
            let mut c = vec![first];
            c.append(&mut rest);
            v.push(c);
        }
    }
    v
}

fn all_words(max_len: usize) -> Vec<Vec<char>> {
    let mut v: Vec<Vec<char>> = vec![vec![]];
    let mut from = 0;
    for _ in 0..max_len {
        let to = v.len();
        for i in from..to {
            for c in ['a', 'b', 'c'] {
                let mut w = v[i].clone();
                w.push(c);
                v.push(w);
            }
        }
        from = to;
    }
    v
}

/// Enumerates (size, depth) slices; returns false when the shard should stop.
fn enumerate(sh: &mut Shard, agg: &mut Agg, space: &mut Space, words: &[Vec<char>], size: u16, depth: u8, counter: &mut u64, part: &'static str, coarse: bool) -> bool {
    let mut go = true;
    let mut todo: Vec<E> = vec![];
    let handle = |sh: &mut Shard, agg: &mut Agg, e: E, counter: &mut u64| -> bool {
        *counter += 1;
        if !sh.mine(*counter) {
            return true;
        }
        let sc = scoping(&e);
        if sc.ill_scoped {
            *agg.discards.entry("expression:ctx_parser-or-iif_ctx-outside-a-context").or_insert(0) += 1;
            return true;
        }
        agg.class("expressions", 1);
        agg.class(top_class(e.k.name()), 1);
        let mut it = words.iter().map(|w| (w.as_slice(), 0usize));
        run_expr(sh, agg, e, &mut it, part, coarse)
    };
    if size == 1 {
        for e in space.table(1, 0).iter() {
            if !handle(sh, agg, e.clone(), counter) {
                return false;
            }
        }
        return true;
    }
    // stream in chunks so that the borrow of `space` ends before running
    let mut chunk_go = true;
    space.compose(size, depth, &mut |e| {
        todo.push(e);
        if todo.len() >= 4096 {
            for e in todo.drain(..) {
                if chunk_go && !handle(sh, agg, e, counter) {
                    chunk_go = false;
                }
            }
        }
        chunk_go
    });
    go &= chunk_go;
    for e in todo.drain(..) {
        if go && !handle(sh, agg, e, counter) {
            go = false;
        }
    }
    go
}

fn top_class(name: &'static str) -> &'static str {
    thread_local! { static NAMES: RefCell<BTreeMap<&'static str, &'static str>> = const { RefCell::new(BTreeMap::new()) }; }
    NAMES.with(|m| *m.borrow_mut().entry(name).or_insert_with(|| Box::leak(format!("top:{}", name).into_boxed_str())))
}

// ---------------------------------------------------------------------------
// random deeper expressions (tape-decoded)
// ---------------------------------------------------------------------------

fn gen_leaf(t: &mut Tape, scope: bool) -> E {
    let c = ['a', 'b', 'c'];
    let k = match t.choose(if scope { 12 } else { 11 }) {
        0 => K::Read,
        1 => K::One(*t.pick(&c)),
        2 => K::OneOf(CS(1 + t.choose(7) as u8)),
        3 => K::OneStr(*t.pick(&c)),
        4 => K::ManyStr(CS(1 + t.choose(7) as u8)),
        5 => K::PeekP,
        6 => K::Sup(t.choose(4) as u8),
        7 => K::Err(Er::S(20 + t.choose(3) as u8)),
        8 => K::Err(Er::F(30 + t.choose(3) as u8)),
        9 => K::One('a'),
        10 => K::ManyStr(CS(3)),
        _ => K::Ctx,
    };
    E::leaf(k)
}

fn gen_pred(t: &mut Tape) -> Pred {
    *t.pick(&[Pred::NotA, Pred::HasB, Pred::Len1, Pred::Any, Pred::Never])
}

fn gen_er(t: &mut Tape) -> Er {
    if t.chance(1, 2) { Er::F(40 + t.choose(3) as u8) } else { Er::S(50 + t.choose(3) as u8) }
}

fn gen_ak(t: &mut Tape) -> AK {
    *t.pick(&[AK::Fun, AK::Tuple, AK::Left, AK::Right, AK::Concat])
}

fn gen_expr(t: &mut Tape, depth: u32, scope: bool, budget: &mut i32) -> E {
    *budget -= 1;
    if depth == 0 || *budget <= 0 || t.choose(7) == 0 {
        return gen_leaf(t, scope);
    }
    let d = depth - 1;
    let choice = t.choose(44);
    let sub = |t: &mut Tape, sc: bool, budget: &mut i32| gen_expr(t, d, sc, budget);
    match choice {
        0 => E::new(K::And(gen_ak(t)), vec![sub(t, scope, budget), sub(t, scope, budget)]),
        1 => {
            let n = 1 + t.choose(3);
            E::new(K::OrN, (0..n).map(|_| sub(t, scope, budget)).collect())
        }
        2 => E::new(K::Or2, vec![sub(t, scope, budget), sub(t, scope, budget)]),
        3 => E::new(K::Filter(gen_pred(t)), vec![sub(t, scope, budget)]),
        4 => E::new(K::FilterMap(gen_pred(t)), vec![sub(t, scope, budget)]),
        5 => E::new(K::Peek, vec![sub(t, scope, budget)]),
        6 => E::new(K::ToOption, vec![sub(t, scope, budget)]),
        7 => E::new(K::OrDefault, vec![sub(t, scope, budget)]),
        8 => E::new(K::Many(*t.pick(&[MK::Many, MK::ManyNone, MK::OneOrMore, MK::ZeroOrMore])), vec![sub(t, scope, budget)]),
        9 => E::new(K::ManyCtx(t.chance(1, 2)), vec![sub(t, true, budget)]),
        10 => {
            let p = gen_pred(t);
            E::new(K::AndThen(p, gen_er(t)), vec![sub(t, scope, budget)])
        }
        11 => {
            let ef = if t.chance(1, 2) { EF::Err(gen_er(t)) } else { EF::Ok };
            E::new(K::AndThenErr(ef), vec![sub(t, scope, budget)])
        }
        12 => E::new(K::Map, vec![sub(t, scope, budget)]),
        13 => E::new(K::Unit, vec![sub(t, scope, budget)]),
        14 => E::new(K::SoftErr(60 + t.choose(3) as u8), vec![sub(t, scope, budget)]),
        15 => E::new(K::OrFail(63 + t.choose(3) as u8), vec![sub(t, scope, budget)]),
        16 => E::new(K::OrExpected(66 + t.choose(3) as u8), vec![sub(t, scope, budget)]),
        17 => E::new(K::ExpectedMsg(69 + t.choose(3) as u8), vec![sub(t, scope, budget)]),
        18 => E::new(K::MapFatal(72 + t.choose(3) as u8), vec![sub(t, scope, budget)]),
        19 => E::new(K::ToFatal, vec![sub(t, scope, budget)]),
        20 => E::new(K::Lazy, vec![sub(t, scope, budget)]),
        21 => E::new(K::Boxed, vec![sub(t, scope, budget)]),
        22 => E::new(K::NoCtx, vec![sub(t, false, budget)]),
        23 => E::new(K::MapCtx, vec![sub(t, scope, budget)]),
        24 => E::new(K::FlatLit, vec![sub(t, scope, budget)]),
        25 => {
            let p = gen_pred(t);
            E::new(K::FlatIf(p), vec![sub(t, scope, budget), sub(t, false, budget), sub(t, false, budget)])
        }
        26 | 27 => {
            let k = K::Delim(t.chance(1, 2), 80 + t.choose(3) as u8);
            E::new(k, vec![sub(t, scope, budget), sub(t, scope, budget)])
        }
        28 | 29 => {
            let n = 2 + t.choose(3);
            let s = E::new(K::Seq, (0..n).map(|_| sub(t, false, budget)).collect());
            // (seqN::set_context was unimplemented!() on the pinned tree - fixed; half of the seqs under a context stay shielded)
            if scope && t.chance(1, 2) { E::new(K::NoCtx, vec![s]) } else { s }
        }
        30 | 31 => E::new(K::ThenWith(gen_ak(t)), vec![sub(t, scope, budget), sub(t, true, budget)]),
        32 | 33 => {
            let m = t.chance(1, 2);
            E::new(K::Surround(m), vec![sub(t, scope, budget), sub(t, scope, budget), sub(t, scope, budget)])
        }
        34 if scope => {
            let p = gen_pred(t);
            E::new(K::Iif(p), vec![sub(t, false, budget), sub(t, false, budget)])
        }
        // weight the combinators of the property statement
        34 | 35 => E::new(K::And(gen_ak(t)), vec![sub(t, scope, budget), sub(t, scope, budget)]),
        36 | 37 => {
            let n = 2 + t.choose(2);
            E::new(K::OrN, (0..n).map(|_| sub(t, scope, budget)).collect())
        }
        38 | 39 => E::new(K::Many(*t.pick(&[MK::Many, MK::ManyNone, MK::OneOrMore, MK::ZeroOrMore])), vec![sub(t, scope, budget)]),
        40 => E::new(K::Peek, vec![sub(t, scope, budget)]),
        41 => E::new(K::ToOption, vec![sub(t, scope, budget)]),
        42 => {
            let p = gen_pred(t);
            E::new(K::AndThen(p, Er::S(55)), vec![sub(t, scope, budget)])
        }
        _ => E::new(K::Filter(gen_pred(t)), vec![sub(t, scope, budget)]),
    }
}

const RANDOM_INPUTS: usize = 16;

fn random_case(sh: &mut Shard, tape: &[u32], max_depth: u32) -> Result<(), Violation> {
    let mut t = Tape::new(tape);
    let mut budget = 40;
    let e = gen_expr(&mut t, max_depth, false, &mut budget);
    let sc = scoping(&e);
    debug_assert!(!sc.ill_scoped, "generator produced {}", e.show());
    let depth_class = match e.dp {
        0 => "random:depth0",
        1 => "random:depth1",
        2 => "random:depth2",
        3 => "random:depth3",
        _ => "random:depth4",
    };
    let mut p = Prepared::new(e);
    // the textual form in replay files must read back as the same expression
    debug_assert_eq!(parse_expr(&p.text).as_ref(), Ok(&p.e));
    sh.journal(&p.text);
    sh.class(depth_class);
    let mut names: Vec<&'static str> = p.info.iter().map(|n| n.k.name()).collect();
    names.sort();
    names.dedup();
    for n in &names {
        sh.class(kind_class(n));
    }
    let mut seen_nt = 0u8;
    for _ in 0..RANDOM_INPUTS {
        let len = t.choose(11);
        let w: Vec<char> = (0..len).map(|_| *t.pick(&['a', 'b', 'c'])).collect();
        let start = if t.chance(1, 3) { t.choose(len + 1) } else { 0 };
        match run_case(&mut p, &w, start) {
            CaseResult::Discard(reason) => sh.discard(reason),
            CaseResult::Done(nt, class, feat) => {
                sh.eval();
                sh.class("random:cases");
                if feat != 0 {
                    for (name, on) in feat_class(feat) {
                        if on {
                            sh.class(name);
                        }
                    }
                }
                sh.class(match class {
                    OK => "outcome:ok",
                    SOFT => "outcome:soft",
                    _ => "outcome:fatal",
                });
                if nt != 0 {
                    sh.class("nontrivial-case");
                    for (name, on) in nt_class(nt) {
                        if on {
                            sh.class(name);
                        }
                    }
                    if seen_nt & (1 << nt) == 0 {
                        seen_nt |= 1 << nt;
                        sh.nontrivial(hash64(&(&p.text, nt)));
                    }
                }
            }
            CaseResult::Fail(v) => {
                sh.eval();
                // a known finding is counted and the search goes on behind it
                sh.triage(*v)?;
            }
        }
    }
    sh.sample_sparse(4999, || json!({"expr": p.text, "part": "random depth<=4"}));
    Ok(())
}

// ---------------------------------------------------------------------------
// list-shaped expressions x delimiter layouts (tape-decoded)
// ---------------------------------------------------------------------------
//
// The general generators reach `delimited_by` with arbitrary children, where most inputs end in a
// precondition discard or an empty list. This part builds the shapes lists are used in
// (`open list.or_default() close`, choice between a list and something else, lists of lists, ...)
// from elements and delimiters that consume input, and draws the input from LAYOUTS of element and
// delimiter witnesses: clean, leading delimiter, doubled delimiter, trailing delimiter, lone delimiter.
// The oracle is the same `run_case` (model + invariants); the layout only steers the input.

/// (expression, a word it accepts)
type Piece = (E, Vec<char>);

fn one_str(c: char) -> E {
    E::leaf(K::OneStr(c))
}

fn gen_element(t: &mut Tape) -> Piece {
    let abc = ['a', 'b', 'c'];
    match t.choose(10) {
        0 => {
            let c = *t.pick(&abc);
            (E::leaf(K::One(c)), vec![c])
        }
        1 => {
            let c = *t.pick(&abc);
            (one_str(c), vec![c])
        }
        2 => {
            let cs = CS(1 + t.choose(6) as u8);
            (E::leaf(K::OneOf(cs)), vec![cs.slice()[0]])
        }
        3 => {
            let cs = CS(1 + t.choose(6) as u8);
            let c = cs.slice()[0];
            (E::leaf(K::ManyStr(cs)), if t.chance(1, 2) { vec![c, c] } else { vec![c] })
        }
        // two characters: a soft failure after the first one (rewound by `and`)
        4 => {
            let (x, y) = (*t.pick(&abc), *t.pick(&abc));
            (E::new(K::And(AK::Concat), vec![one_str(x), one_str(y)]), vec![x, y])
        }
        5 => (E::new(K::Filter(Pred::NotA), vec![E::leaf(K::Read)]), vec!['b']),
        6 => {
            let (x, y) = (*t.pick(&abc), *t.pick(&abc));
            (E::new(K::OrN, vec![E::leaf(K::One(x)), E::leaf(K::One(y))]), vec![x])
        }
        7 => {
            let c = *t.pick(&abc);
            (E::new(K::Map, vec![E::leaf(K::One(c))]), vec![c])
        }
        // elements that can fail fatally
        8 => {
            let cs = CS(1 + t.choose(6) as u8);
            (E::new(K::AndThen(Pred::NotA, Er::F(90)), vec![E::leaf(K::OneOf(cs))]), vec![cs.slice()[0]])
        }
        _ => {
            let (x, y) = (*t.pick(&abc), *t.pick(&abc));
            (E::new(K::Seq, vec![E::leaf(K::One(x)), E::leaf(K::One(y))]), vec![x, y])
        }
    }
}

fn gen_delimiter(t: &mut Tape) -> Piece {
    let abc = ['a', 'b', 'c'];
    match t.choose(6) {
        // `b` first: with the simplest element (`one a`) the simplest delimiter is a different character
        0 => {
            let c = *t.pick(&['b', 'c', 'a']);
            (E::leaf(K::One(c)), vec![c])
        }
        1 => {
            let c = *t.pick(&['b', 'c', 'a']);
            (one_str(c), vec![c])
        }
        2 => {
            let cs = CS(1 + t.choose(6) as u8);
            (E::leaf(K::OneOf(cs)), vec![*cs.slice().last().unwrap()])
        }
        3 => {
            let c = *t.pick(&['b', 'c', 'a']);
            (E::new(K::Unit, vec![E::leaf(K::One(c))]), vec![c])
        }
        // two characters (like ", "): soft failure after the first, rewound
        4 => {
            let (x, y) = (*t.pick(&abc), *t.pick(&abc));
            (E::new(K::And(AK::Left), vec![E::leaf(K::One(x)), E::leaf(K::One(y))]), vec![x, y])
        }
        // optional trailing part (like "," followed by optional blanks)
        _ => {
            let (x, y) = (*t.pick(&['b', 'c', 'a']), *t.pick(&abc));
            (E::new(K::And(AK::Left), vec![E::leaf(K::One(x)), E::new(K::ToOption, vec![E::leaf(K::One(y))])]), vec![x])
        }
    }
}

const LIST_WRAPPERS: [&str; 16] = [
    "list:shape:bare",
    "list:shape:or_default",
    "list:shape:to_option",
    "list:shape:open-or_default-close(surround-mandatory)",
    "list:shape:surround-optional",
    "list:shape:choice-list-first",
    "list:shape:choice-list-last",
    "list:shape:or2",
    "list:shape:seq-open-or_default-close",
    "list:shape:and-list-tail",
    "list:shape:and-head-list",
    "list:shape:many-of-terminated-lists",
    "list:shape:peek",
    "list:shape:list-of-lists",
    "list:shape:filter",
    "list:shape:or_default-then-rest",
];

/// Returns (expression, shape index, witnesses of element, delimiter, opening and closing part).
fn gen_list_expr(t: &mut Tape) -> (E, usize, Vec<char>, Vec<char>, Vec<char>, Vec<char>) {
    let abc = ['a', 'b', 'c'];
    let (el, ew) = gen_element(t);
    let (de, dw) = gen_delimiter(t);
    // three lists out of four do not support missing elements
    let allow_missing = t.choose(4) == 3;
    let list = E::new(K::Delim(allow_missing, 100 + t.choose(3) as u8), vec![el.clone(), de.clone()]);
    let shape = t.choose(LIST_WRAPPERS.len());
    let open = *t.pick(&['c', 'a', 'b']);
    let close = *t.pick(&['c', 'a', 'b']);
    let one = |c: char| E::leaf(K::One(c));
    let dflt = |e: E| E::new(K::OrDefault, vec![e]);
    let (mut ow, mut cw): (Vec<char>, Vec<char>) = (vec![], vec![]);
    let e = match shape {
        0 => list,
        1 => dflt(list),
        2 => E::new(K::ToOption, vec![list]),
        3 => {
            ow = vec![open];
            cw = vec![close];
            E::new(K::Surround(true), vec![one(open), dflt(list), one(close)])
        }
        4 => {
            ow = vec![open];
            cw = vec![close];
            E::new(K::Surround(false), vec![one(open), list, one(close)])
        }
        5 => {
            // the alternative starts with the delimiter: it matches exactly when the list must not
            let alt = E::new(K::And(AK::Concat), vec![E::new(K::Map, vec![de.clone()]), E::new(K::Map, vec![el.clone()])]);
            E::new(K::OrN, vec![list, alt, E::leaf(K::Read)])
        }
        6 => E::new(K::OrN, vec![one(open), list]),
        7 => {
            let alt = E::new(K::And(AK::Right), vec![de.clone(), E::leaf(K::Sup(0))]);
            E::new(K::Or2, vec![list, alt])
        }
        8 => {
            ow = vec![open];
            cw = vec![close];
            E::new(K::Seq, vec![one(open), dflt(list), one(close)])
        }
        9 => {
            cw = vec![close];
            E::new(K::And(gen_ak(t)), vec![list, one(close)])
        }
        10 => {
            ow = vec![open];
            E::new(K::And(gen_ak(t)), vec![one(open), list])
        }
        11 => {
            cw = vec![close];
            E::new(K::Many(*t.pick(&[MK::Many, MK::ManyNone, MK::OneOrMore, MK::ZeroOrMore])), vec![E::new(K::And(AK::Left), vec![dflt(list), one(close)])])
        }
        12 => E::new(K::Peek, vec![list]),
        13 => {
            let outer = *t.pick(&abc);
            cw = vec![outer];
            E::new(K::Delim(t.chance(1, 2), 103), vec![list, one(outer)])
        }
        14 => E::new(K::Filter(gen_pred(t)), vec![list]),
        _ => E::new(K::And(AK::Tuple), vec![dflt(list), E::new(K::Many(MK::ManyNone), vec![E::leaf(K::Read)])]),
    };
    (e, shape, ew, dw, ow, cw)
}

const LIST_INPUTS: usize = 16;

fn gen_layout_word(t: &mut Tape, ew: &[char], dw: &[char], ow: &[char], cw: &[char]) -> Vec<char> {
    let abc = ['a', 'b', 'c'];
    let mut w: Vec<char> = vec![];
    let layout = t.choose(8);
    if layout == 7 {
        let len = t.choose(9);
        return (0..len).map(|_| *t.pick(&abc)).collect();
    }
    if !ow.is_empty() && t.choose(8) != 7 {
        w.extend_from_slice(ow);
    }
    // E = element witness, D = delimiter witness
    let body: &[u8] = match layout {
        0 => b"EDE",
        1 => b"DE",
        2 => b"D",
        3 => b"EDDE",
        4 => b"ED",
        5 => b"DDE",
        _ => b"",
    };
    if layout == 6 {
        // free mixture of witnesses and single characters
        for _ in 0..t.choose(5) {
            match t.choose(3) {
                0 => w.extend_from_slice(ew),
                1 => w.extend_from_slice(dw),
                _ => w.push(*t.pick(&abc)),
            }
        }
    } else {
        for b in body {
            w.extend_from_slice(if *b == b'E' { ew } else { dw });
        }
        // sometimes one more round, so that lists of lists and repetitions see a second list
        if t.choose(4) == 3 {
            w.extend_from_slice(cw);
            w.extend_from_slice(if t.chance(1, 2) { dw } else { ew });
        }
    }
    if !cw.is_empty() && t.choose(8) != 7 {
        w.extend_from_slice(cw);
    }
    if t.choose(6) == 5 {
        w.push(*t.pick(&abc));
    }
    w.truncate(MAX_INPUT);
    w
}

fn list_case(sh: &mut Shard, tape: &[u32]) -> Result<(), Violation> {
    let mut t = Tape::new(tape);
    let (e, shape, ew, dw, ow, cw) = gen_list_expr(&mut t);
    debug_assert!(!scoping(&e).ill_scoped);
    let mut p = Prepared::new(e);
    debug_assert_eq!(parse_expr(&p.text).as_ref(), Ok(&p.e));
    sh.journal(&p.text);
    sh.class("list:expressions");
    sh.class(LIST_WRAPPERS[shape]);
    let mut seen_nt = 0u16;
    for _ in 0..LIST_INPUTS {
        let w = gen_layout_word(&mut t, &ew, &dw, &ow, &cw);
        match run_case(&mut p, &w, 0) {
            CaseResult::Discard(reason) => sh.discard(reason),
            CaseResult::Done(nt, class, feat) => {
                sh.eval();
                sh.class("list:cases");
                sh.class(match class {
                    OK => "outcome:ok",
                    SOFT => "outcome:soft",
                    _ => "outcome:fatal",
                });
                for (name, on) in feat_class(feat) {
                    if on {
                        sh.class(name);
                        if name == "delim:leading-delimiter" {
                            sh.class("list:cases:leading-delimiter");
                        }
                    }
                }
                if nt != 0 {
                    sh.class("nontrivial-case");
                    for (name, on) in nt_class(nt) {
                        if on {
                            sh.class(name);
                        }
                    }
                }
                // a leading delimiter that was decided counts as non-trivial for this part
                let key = nt | if feat & F_LEAD != 0 { 8 } else { 0 };
                if key != 0 && seen_nt & (1 << key) == 0 {
                    seen_nt |= 1 << key;
                    sh.nontrivial(hash64(&(&p.text, key)));
                }
            }
            CaseResult::Fail(v) => {
                sh.eval();
                sh.triage(*v)?;
            }
        }
    }
    sh.sample_sparse(997, || json!({"expr": p.text, "part": "list shapes x delimiter layouts"}));
    Ok(())
}

// ---------------------------------------------------------------------------
// the property
// ---------------------------------------------------------------------------

/// Witnesses of the known finding `seq-set-context-unimplemented` (excluded from the general space).
const SEQ_WITNESSES: [(&str, &str); 3] = [
    ("(thenwith right read (seq (one a) (one b)))", "aab"),
    ("(manyctx (seq read (sup x)))", "ab"),
    ("(thenwith fun (one a) (and left (seq read read) ctx))", "abc"),
];

impl Prop for C20 {
    fn id(&self) -> &'static str {
        "C20"
    }
    fn rule(&self) -> &'static str {
        "Parser expressions are data over 9 primitives and 39 combinator forms of rusty_pc; each is built into a real parser over the harness's own InputTrait/ParserErrorTrait types (every node wrapped in a transparent probe) and compared, node by node (outcome, output, error value, position), with a denotational model written from the doc comments; the statement's invariants are asserted on the real call tree as well. Enumerated part: every well-scoped expression with <= 4 nodes and depth <= 2 x all 1093 words over {a,b,c} of length <= 6 from position 0, plus every expression with 5 nodes and depth <= 2 x all 121 words of length <= 4 (quick); thorough: every expression with <= 4 nodes x all 1093 words and every expression with 5 nodes and depth <= 3 x all 364 words of length <= 5. Random part: tape-decoded expressions of depth <= 4 (<= 40 nodes) x 16 random words of length <= 10, one third from a random start position. List part: 16 shapes lists are used in (bare, or_default, to_option, open list.or_default() close as mandatory surround and as seq, optional surround, choice with the list first/last, two-way or, and with a head/tail, repetition of terminated lists, peek, filter, list of lists, list then rest) over 10 element forms and 6 delimiter forms that consume input (single and two-character, fatal-capable elements), delimited_by three times out of four, x 16 words drawn from delimiter LAYOUTS of element/delimiter witnesses (clean, leading, lone, doubled, trailing, double leading, free mixture, random); same oracle. A delimiter before the first element of delimited_by (missing elements not supported) is decided under both readings the documentation admits - a fatal error (the given one if no element follows either, i.e. the delimiter is trailing as well) or a soft failure with the input where it started - and the real parser must follow one of them consistently, node by node; the classes `delim:*` count the layouts met by the model (leading, leading under a soft-absorbing combinator, leading with an element after it, doubled, trailing, missing element collected, list >= 2). A case is non-trivial when a soft or fatal failure happened after input had been consumed, or a repetition/delimited list collected >= 2 elements, or a choice fell through >= 1 alternative. distinct_nontrivial counts (expression, set of non-trivial events) pairs (expressions for the 5-node slices), because 10^8..10^10 per-case hashes cannot be kept; the exact number of non-trivial cases is the class `nontrivial-case`. Cases where the documentation does not determine the behaviour or a documented precondition is violated are decided in the model, discarded and counted, never run."
    }
    fn assumptions(&self) -> Vec<&'static str> {
        vec![
            "a combinator that must make up an error (filter/filter_map rejection, read_p/peek_p at EOF) returns ParserErrorTrait::default(); which soft error an empty delimited list returns is not compared",
            "the position after a FATAL error is not compared (no documentation defines it; no combinator continues after a fatal error)",
            "and_then / and_then_err / flatten do not rewind (documented); a soft failure that has consumed input is only followed where a rewind is explicit in the contract (right side of `and`, non-last OrParser alternative, main parser of an optional surround) or where the wrapper is a pure decorator; under every other combinator the case is discarded as precondition violation",
            "repetition over an element (or a delimiter) that can succeed without consuming loops forever by design: detected in the model and discarded",
            "delimited_by with a delimiter before the first element: 'missing elements are not supported' and the statement (soft failure leaves the input where it started; a trailing delimiter is rejected fatally with the given error) admit exactly two behaviours - a fatal error (value compared only when the delimiter is also trailing, i.e. no element follows it) or a soft failure (value not compared) at the start position; the model is evaluated under both readings and the real parser has to match one of them over the whole call tree; a success, or a soft failure that keeps the delimiter consumed, matches neither. If the soft-rewound reading leaves the case undetermined higher up (precondition) and the real parser takes that reading, the case is discarded",
            "a fatal delimiter right after a trailing delimiter is not documented: discarded",
            "ctx_parser / IifCtxParser outside a context panic by design: such expressions are not generated",
            "a seqN under a context passes the context on to every element (the Parser trait doc: delegating parsers propagate the context)",
        ]
    }
    fn watchdog_ms(&self) -> u64 {
        30_000
    }
    fn hang_is_violation(&self) -> bool {
        true
    }

    fn run(&self, sh: &mut Shard) {
        let mut agg = Agg::default();
        if sh.shard == 0 {
            for (expr, input) in SEQ_WITNESSES {
                let r = self.replay(sh, &json!({"expr": expr, "input": input, "start": 0}));
                sh.eval();
                sh.class("seq-witness");
                if !sh.report(r) {
                    return;
                }
            }
        }
        // debugging aid for sensitivity runs: C20_ONLY_LISTS=1 runs the list part alone
        if std::env::var("C20_ONLY_LISTS").is_ok() {
            let lists = sh.share(sh.tier.pick(48_000, 480_000));
            sh.search(2, lists, 32, 320, |sh, tape| list_case(sh, tape));
            return;
        }
        let words = all_words(6);
        let mut space = Space::new();
        let mut counter = 0u64;
        let thorough = sh.tier == Tier::Thorough;
        // (size, depth, longest word, class, what)
        let plan: Vec<(u16, u8, usize, &'static str, &'static str)> = if thorough {
            vec![
                (1, 0, 6, "enum:size1", "all primitives x all 1093 words of length <= 6"),
                (2, 1, 6, "enum:size2", "all expressions with 2 nodes x all 1093 words"),
                (3, 2, 6, "enum:size3", "all expressions with 3 nodes x all 1093 words"),
                (4, 3, 6, "enum:size4-depth<=3", "all expressions with 4 nodes (depth <= 3) x all 1093 words"),
                (5, 3, 5, "enum:size5-depth<=3:words<=5", "all expressions with 5 nodes and depth <= 3 x all 364 words of length <= 5"),
            ]
        } else {
            vec![
                (1, 0, 6, "enum:size1", "all primitives x all 1093 words of length <= 6"),
                (2, 1, 6, "enum:size2", "all expressions with 2 nodes x all 1093 words"),
                (3, 2, 6, "enum:size3", "all expressions with 3 nodes x all 1093 words"),
                (4, 2, 6, "enum:size4-depth<=2", "all expressions with 4 nodes and depth <= 2 x all 1093 words"),
                (5, 2, 4, "enum:size5-depth<=2:words<=4", "all expressions with 5 nodes and depth <= 2 x all 121 words of length <= 4"),
            ]
        };
        for (size, depth, maxlen, part, what) in plan {
            // words are ordered by length
            let nwords = words.iter().take_while(|w| w.len() <= maxlen).count();
            let go = enumerate(sh, &mut agg, &mut space, &words[..nwords], size, depth, &mut counter, part, size >= 5);
            agg.flush(sh);
            if !go {
                return;
            }
            sh.exhaustive(what);
        }
        drop(space);
        // random deeper expressions
        let exprs = sh.share(sh.tier.pick(400_000, 4_000_000));
        sh.search(1, exprs, 48, 400, |sh, tape| random_case(sh, tape, 4));
        // list shapes x delimiter layouts
        let lists = sh.share(sh.tier.pick(48_000, 480_000));
        sh.search(2, lists, 32, 320, |sh, tape| list_case(sh, tape));
    }

    fn replay(&self, _sh: &mut Shard, inputs: &Value) -> Result<(), Violation> {
        let text = inputs["expr"].as_str().expect("replay inputs need `expr`");
        let e = parse_expr(text).unwrap_or_else(|m| panic!("cannot parse expression {:?}: {}", text, m));
        if scoping(&e).ill_scoped {
            panic!("expression uses ctx_parser/iif_ctx outside a context: {}", text);
        }
        let w: Vec<char> = inputs["input"].as_str().unwrap_or("").chars().collect();
        assert!(w.len() <= MAX_INPUT, "input too long");
        let start = inputs["start"].as_u64().unwrap_or(0) as usize;
        assert!(start <= w.len());
        let mut p = Prepared::new(e);
        match run_case(&mut p, &w, start) {
            CaseResult::Fail(v) => Err(*v),
            _ => Ok(()),
        }
    }
}

//! C01 — running a core-language program yields exactly the prescribed output and outcome.

use serde_json::{Value, json};

use crate::engine::{Shard, Violation, hash64};
use crate::genr::build::{Gen, GenCfg};
use crate::genr::ir::Program;
use crate::genr::print::{Layout, Rendered, render};
use crate::impl_run::{self, End, RunOpts};
use crate::props::Prop;
use crate::props::common::{compare_end, norm_numbers, ref_end_json};
use crate::refsem::{self, Outcome, RefEnd, RefResult};

pub struct C01;

pub struct Expect {
    pub stdout: String,
    pub end: RefEnd,
    pub triggers: Vec<String>,
    pub statements: u64,
}

/// Compares one rendered program with its expectation. `strict_pos`: also check the error position.
pub fn check_program(r: &Rendered, exp: &Expect, prefix: &str) -> Result<(), Violation> {
    let budget = exp.statements * 5_000 + 1_000_000;
    let sites: Vec<Value> = match &exp.end {
        RefEnd::Err(e) => e.paths.iter().filter_map(|p| r.sites.get(p)).map(|s| json!({"row":s.row,"col_start":s.col_start,"col_end":s.col_end})).collect(),
        _ => vec![],
    };
    let inputs = json!({
        "program": r.text,
        "expected_stdout": exp.stdout,
        "expected_end": ref_end_json(&exp.end),
        "expected_error_sites": sites,
        "triggers": exp.triggers,
        "ref_statements": exp.statements,
    });
    let attributed = |default: String| -> String { exp.triggers.first().cloned().unwrap_or(default) };
    let out = match impl_run::run_src(&r.text, &RunOpts::budget(budget)) {
        Err(e) => {
            return Err(Violation::new(attributed(format!("{}-rejected:{}", prefix, e.class())), "well-formed generated program rejected or crashed before running", inputs).exp_obs("accepted", e.to_json()));
        }
        Ok(o) => o,
    };
    if let End::Budget = out.end {
        return Err(Violation::new(attributed(format!("{}-nontermination", prefix)), "implementation exceeded the instruction budget derived from the terminating reference run", inputs).exp_obs(json!({"ref_statements":exp.statements}), json!({"ticks":out.ticks})));
    }
    let obs_stdout = norm_numbers(&out.stdout_str());
    let exp_stdout = norm_numbers(&exp.stdout);
    if obs_stdout != exp_stdout {
        return Err(Violation::new(attributed(format!("{}-stdout", prefix)), "printed text differs from the reference semantics", inputs).exp_obs(json!({"stdout":exp.stdout,"end":ref_end_json(&exp.end)}), json!({"stdout":out.stdout_str(),"end":out.end.to_json()})));
    }
    if let Some(why) = compare_end(&exp.end, &out.end, r, true) {
        let kind = if why.starts_with("error position") { "errpos" } else { "end" };
        return Err(Violation::new(attributed(format!("{}-{}", prefix, kind)), format!("program ends differently from the reference semantics: {}", why), inputs).exp_obs(ref_end_json(&exp.end), out.end.to_json()));
    }
    Ok(())
}

fn replay_expect(inputs: &Value) -> Expect {
    Expect {
        stdout: inputs["expected_stdout"].as_str().unwrap_or("").to_string(),
        end: RefEnd::Ok,
        triggers: inputs["triggers"].as_array().map(|a| a.iter().filter_map(|x| x.as_str().map(|s| s.to_string())).collect()).unwrap_or_default(),
        statements: inputs["ref_statements"].as_u64().unwrap_or(1000),
    }
}

/// Replay works on the rendered inputs only: program text, expected stdout, expected end + sites.
pub fn replay_program(inputs: &Value, prefix: &str) -> Result<(), Violation> {
    let text = inputs["program"].as_str().unwrap_or("");
    let exp = replay_expect(inputs);
    let budget = exp.statements * 5_000 + 1_000_000;
    let attributed = |default: String| -> String { exp.triggers.first().cloned().unwrap_or(default) };
    let out = match impl_run::run_src(text, &RunOpts::budget(budget)) {
        Err(e) => return Err(Violation::new(attributed(format!("{}-rejected:{}", prefix, e.class())), "program rejected or crashed before running", inputs.clone()).exp_obs("accepted", e.to_json())),
        Ok(o) => o,
    };
    if let End::Budget = out.end {
        return Err(Violation::new(attributed(format!("{}-nontermination", prefix)), "instruction budget exceeded", inputs.clone()));
    }
    if norm_numbers(&out.stdout_str()) != norm_numbers(&exp.stdout) {
        return Err(Violation::new(attributed(format!("{}-stdout", prefix)), "printed text differs from the expectation", inputs.clone()).exp_obs(exp.stdout, out.stdout_str()));
    }
    let e = &inputs["expected_end"];
    let ok = if e == "ok" {
        out.end == End::Ok
    } else {
        match &out.end {
            End::Err { code, pos, .. } => {
                let code_ok = code.map(|c| c as i64) == e["code"].as_i64();
                let sites = inputs["expected_error_sites"].as_array().cloned().unwrap_or_default();
                let pos_ok = sites.is_empty()
                    || pos.first().map(|(row, col)| sites.iter().any(|s| s["row"].as_u64() == Some(*row as u64) && (*col as u64) >= s["col_start"].as_u64().unwrap_or(0) && (*col as u64) <= s["col_end"].as_u64().unwrap_or(0) + 1)).unwrap_or(false);
                code_ok && pos_ok
            }
            _ => false,
        }
    };
    if !ok {
        return Err(Violation::new(attributed(format!("{}-end", prefix)), "program ends differently from the expectation", inputs.clone()).exp_obs(e.clone(), out.end.to_json()));
    }
    Ok(())
}

pub fn classify(sh: &mut Shard, res: &RefResult) {
    for f in &res.features {
        sh.class(f);
    }
    match &res.end {
        RefEnd::Ok => sh.class("end:ok"),
        RefEnd::Err(e) => sh.class(&format!("end:error-{}", e.code)),
    }
    for t in &res.triggers {
        sh.class(&format!("touches-known:{}", t));
    }
}

pub fn nontrivial(res: &RefResult) -> bool {
    (res.features.contains("loop-iterated") || res.features.contains("branch-taken")) && res.printed_var
}

pub fn expect_of(res: &RefResult) -> Expect {
    Expect { stdout: res.stdout.clone(), end: res.end.clone(), triggers: res.triggers.iter().map(|s| s.to_string()).collect(), statements: res.statements }
}

fn one_case(sh: &mut Shard, tape: &[u32], cfg: &GenCfg) -> Result<(), Violation> {
    let prog: Program = Gen::new(tape, cfg).core_program();
    let r = render(&prog, &Layout::plain());
    sh.eval();
    let res = match refsem::run(&prog, 200_000) {
        Outcome::Undetermined(why, _) => {
            sh.discard(&format!("undetermined: {}", why));
            return Ok(());
        }
        Outcome::Determined(r) => r,
    };
    classify(sh, &res);
    if nontrivial(&res) {
        sh.nontrivial(hash64(&r.text));
    }
    sh.sample_sparse(211, || json!({"program": r.text, "expected_stdout": res.stdout, "expected_end": ref_end_json(&res.end)}));
    sh.journal(&r.text);
    let exp = expect_of(&res);
    check_program(&r, &exp, "c01")?;
    // function of the text alone: one case in eight runs a second time in the same worker
    if hash64(&r.text) % 8 == 0 {
        sh.class("rerun-determinism");
        check_program(&r, &exp, "c01-rerun")?;
    }
    Ok(())
}

impl Prop for C01 {
    fn id(&self) -> &'static str {
        "C01"
    }
    fn rule(&self) -> &'static str {
        "Tape-decoded well-typed programs over the core grammar (five value types, 13 binary + 2 unary operators, assignments with conversion, PRINT with ; and , , DATA/READ, block and single-line IF, SELECT CASE, FOR with positive/negative/computed STEP, WHILE, four DO forms, nesting, deliberate run-time errors) are run through the implementation and through an independent big-step reference semantics with exact dyadic arithmetic; stdout must be equal (numbers modulo an optional 0 before the point) and the ending must agree (normal, or same error code on the row of the failing statement with the column inside it). Cases the property statements do not determine (rounding, ties, digits beyond what the type prints) are discarded and counted. Non-trivial = executed >= 1 loop iteration or took >= 1 branch AND printed a value that depends on a variable; distinct by program text hash."
    }
    fn assumptions(&self) -> Vec<&'static str> {
        vec![
            "reference semantics of Appendix A (DESIGN.md); numeric domain restricted to exactly representable dyadic values",
            "binary sub-expressions are parenthesised (operator precedence is C10's property)",
            "a failure in a case that passed through a listed known-defect trigger is attributed to that finding",
        ]
    }
    fn run(&self, sh: &mut Shard) {
        let cases = sh.share(sh.tier.pick(16_000, 600_000));
        let cfg = GenCfg::core(sh.tier.pick(16, 36), sh.tier.pick(3, 5));
        sh.search(1, cases, 40, sh.tier.pick(300, 700), |sh, tape| one_case(sh, tape, &cfg));
    }
    fn replay(&self, _sh: &mut Shard, inputs: &Value) -> Result<(), Violation> {
        replay_program(inputs, "c01")
    }
}

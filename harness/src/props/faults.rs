//! Fault x position x context matrix: every ill-typed expression / statement template is placed at every
//! expression position of its claimed type and inside every statement context. Used by C12 (a fault rejected
//! at the reference position must be rejected - same error, same statement - at every other position) and by
//! C08 (whatever the checker accepts must run without an internal failure).

/// Ill-typed expressions that claim to be numeric.
pub const NUM_FAULTS: [&str; 52] = [
    // an array without subscripts is not a value
    "ARR%", "LARR&", "ARR% + 1", "LEN(SARR$)", "(ARR%)", "Fn1%(LARR&)",
    // a record is not a value either
    "REC", "(REC)",
    "LEN(5)", "LEN(ZN#)", "INSTR(\"a\", 2)", "INSTR(2, \"a\")", "INSTR(1, \"abc\", 3)", "INSTR(\"x\", \"abc\", \"b\")", "INSTR(1, 2, \"b\")", "VAL(3)", "ASC(3)", "CVD(3)",
    "\"a\" + 1", "1 + \"a\"", "2 * \"a\"", "\"a\" - 1", "\"a\" / 2", "(NOT \"a\")", "(-\"a\")", "(\"a\" AND 1)", "(1 OR \"a\")", "(1 < \"a\")", "(\"a\" = 1)", "(\"a\" MOD 2)",
    "Fn1%(\"a\")", "Fn1%(1, 2)", "Fn1%(ZS$)", "Fn2%(1, \"b\")", "ARR%(\"a\")", "ARR%(ZS$)", "REC.N + \"a\"", "REC + 1", "REC.S + 1", "UBOUND(5)", "UBOUND(ARR%, \"a\")", "LBOUND(ZN#)",
    "EOF(\"a\")", "PEEK(\"a\")", "ZS$ + 1", "ZN# + ZS$", "SARR$(1) * 2", "LEN(ZS$) + ZS$", "VAL(ZS$) + ZS$", "Fn1%(1) + \"a\"", "ARR%(1) + SARR$(1)", "(ZN# > ZS$)",
];

/// Ill-typed expressions that claim to be strings.
pub const STR_FAULTS: [&str; 33] = [
    "SARR$", "SARR$ + \"a\"", "UCASE$(SARR$)",
    "UCASE$(5)", "LCASE$(5)", "LTRIM$(5)", "RTRIM$(ZN#)", "LEFT$(5, 1)", "LEFT$(\"a\", \"b\")", "RIGHT$(5, 1)", "RIGHT$(\"a\", \"b\")", "MID$(5, 1)", "MID$(\"a\", \"b\")", "MID$(\"a\", 1, \"c\")",
    "CHR$(\"a\")", "STR$(\"a\")", "SPACE$(\"a\")", "STRING$(\"a\", 1)", "STRING$(2, REC)", "MKD$(\"a\")", "\"a\" + 5", "FnS$(5)", "FnS$(\"a\", \"b\")", "FnS$(ZN#)", "SARR$(\"a\")", "REC.S + 5",
    "ENVIRON$(5)", "ZS$ + ZN#", "UCASE$(ZS$) + 1", "LEFT$(ZS$, ZS$)", "STR$(ZS$)", "CHR$(ZS$)", "FnS$(\"a\") + 1",
];

/// Ill-typed / ill-formed single statements.
pub const STMT_FAULTS: [&str; 37] = [
    "PRINT REC", "PRINT 1; REC", "REC = 5", "ZN# = \"a\"", "ZS$ = 5", "ZN# = REC", "ZS$ = REC", "Sb1 \"a\"", "Sb1 1, 2", "Sb1", "SbS 5", "Sb1 ZS$", "SbS ZN#", "Sb1 SARR$(1)", "SbS ARR%(1)",
    "GOTO Nowhere", "GOSUB Nowhere", "ARR%(1) = \"a\"", "SARR$(1) = 5", "REC.N = \"a\"", "REC.S = 5", "CALL Sb1(\"a\")",
    "SbArr LARR&()", "SbArr SARR$()", "SbArr ZN#", "Sb1 ARR%()", "SbArr REC", "SbArr ARR%(1)",
    "ZC.D = 1", "ZC = 1", "ZC.D$ = \"a\"",
    "LINE INPUT SARR$()", "INPUT SARR$()", "INPUT ARR%()", "SbSA FARR()", "SbSA SARR$()", "SbArr FARR()",
];

/// Statement templates with one numeric expression hole `{e}`; several lines = a block statement.
pub const NUM_POSITIONS: [&[&str]; 31] = [
    &["PRINT {e}"],
    &["PRINT ({e})"],
    &["PRINT 1; {e}"],
    &["PRINT {e}, 2"],
    &["ZN# = {e}"],
    &["ZN# = 1 + ({e})"],
    &["ZN# = -({e})"],
    &["ARR%({e}) = 1"],
    &["ZN# = ARR%({e})"],
    &["Sb1 {e}"],
    &["Sb1 ({e})"],
    &["ZN# = Fn1%({e})"],
    &["ZN# = LEN(STR$({e}))"],
    &["IF {e} THEN PRINT 1"],
    &["SELECT CASE {e}", "CASE 1", "PRINT 1", "END SELECT"],
    &["SELECT CASE 1", "CASE 5, {e}", "PRINT 1", "END SELECT"],
    &["SELECT CASE 1", "CASE 0 TO {e}", "PRINT 1", "END SELECT"],
    &["SELECT CASE 1", "CASE IS > {e}", "PRINT 1", "END SELECT"],
    &["FOR ZJ% = 1 TO {e}", "NEXT"],
    &["FOR ZJ% = 1 TO 2 STEP {e}", "NEXT"],
    &["IF {e} THEN", "PRINT 1", "END IF"],
    &["IF 0 THEN", "PRINT 1", "ELSEIF {e} THEN", "PRINT 2", "END IF"],
    &["PRINT LEFT$(\"abc\", {e})"],
    &["ZN# = ({e}) * 2"],
    &["PRINT #1, {e}"],
    &["REDIM ZR%({e})"],
    &["ZN# = Fn2%(1, {e})"],
    &["PRINT USING \"###\"; {e}"],
    &["LPRINT {e}"],
    &["LPRINT 1, {e};"],
    &["PRINT #1, USING \"###\"; {e}"],
];

/// Statement templates with one string expression hole.
pub const STR_POSITIONS: [&[&str]; 20] = [
    &["PRINT {e}"],
    &["PRINT ({e})"],
    &["PRINT \"x\"; {e}"],
    &["ZS$ = {e}"],
    &["ZS$ = \"x\" + ({e})"],
    &["ZN# = LEN({e})"],
    &["SbS {e}"],
    &["SbS ({e})"],
    &["ZS$ = FnS$({e})"],
    &["IF {e} = \"a\" THEN PRINT 1"],
    &["SELECT CASE {e}", "CASE \"a\"", "PRINT 1", "END SELECT"],
    &["SELECT CASE \"a\"", "CASE \"b\", {e}", "PRINT 1", "END SELECT"],
    &["PRINT UCASE$({e})"],
    &["ZN# = INSTR({e}, \"a\")"],
    &["SARR$(1) = {e}"],
    &["PRINT #1, {e}"],
    &["ZN# = INSTR(1, \"abc\", {e})"],
    &["PRINT USING \"!\"; {e}"],
    &["LPRINT {e}"],
    &["PRINT \"x\", {e};"],
];

pub const CONTEXTS: [&str; 16] = [
    "top", "if", "else", "elseif", "case", "case-else", "for", "while", "do", "ifline-then", "ifline-else", "sub", "function", "sub>for>else", "gosub-routine", "case-else>do",
];

pub struct Case {
    pub text: String,
    /// first and last row (1-based) of the lines of the faulty statement
    pub rows: (u32, u32),
}

const PRELUDE: [&str; 16] = [
    "TYPE RT",
    "  N AS INTEGER",
    "  S AS STRING * 4",
    "END TYPE",
    "DIM SHARED REC AS RT",
    "DIM SHARED ARR%(3)",
    "DIM SHARED SARR$(3)",
    "DIM SHARED LARR&(3)",
    "DIM SHARED FARR(1 TO 2) AS STRING * 4",
    "DIM SHARED ZN#",
    "DIM SHARED ZS$",
    "DIM SHARED ZW%",
    "ZN# = 1",
    "ZS$ = \"a\"",
    "CONST ZC = 4",
    "CONST ZC.D = 5",
];

const PROCS: [&str; 21] = [
    "SUB SbSA (P$())",
    "  P$(1) = P$(1) + \"!\"",
    "END SUB",
    "SUB SbArr (P%())",
    "  P%(1) = P%(1) + 1",
    "END SUB",
    "SUB Sb1 (P%)",
    "  P% = P% + 1",
    "END SUB",
    "SUB SbS (P$)",
    "  P$ = P$ + \"!\"",
    "END SUB",
    "FUNCTION Fn1% (P%)",
    "  Fn1% = P% + 1",
    "END FUNCTION",
    "FUNCTION Fn2% (P%, Q%)",
    "  Fn2% = P% + Q%",
    "END FUNCTION",
    "FUNCTION FnS$ (P$)",
    "  FnS$ = P$ + \"?\"",
    "END FUNCTION",
];

/// Builds the program with the statement lines `stmt` placed in context `ctx`. None when the combination is
/// impossible (a block statement on a single-line IF).
pub fn place(stmt: &[String], ctx: usize) -> Option<Case> {
    let mut main: Vec<String> = PRELUDE.iter().map(|s| s.to_string()).collect();
    let mut tail: Vec<String> = vec![];
    let mut procs: Vec<String> = PROCS.iter().map(|s| s.to_string()).collect();
    // where the statement goes: (which list, index of the first statement line)
    let single = stmt.len() == 1;
    let mut mark: (u8, usize) = (0, 0);
    let put = |v: &mut Vec<String>, indent: &str| -> usize {
        let at = v.len();
        for l in stmt {
            v.push(format!("{}{}", indent, l));
        }
        at
    };
    match CONTEXTS[ctx] {
        "top" => mark = (0, put(&mut main, "")),
        "if" => {
            main.push("IF -1 THEN".into());
            mark = (0, put(&mut main, "  "));
            main.push("END IF".into());
        }
        "else" => {
            main.push("IF 0 THEN".into());
            main.push("  PRINT 1".into());
            main.push("ELSE".into());
            mark = (0, put(&mut main, "  "));
            main.push("END IF".into());
        }
        "elseif" => {
            main.push("IF 0 THEN".into());
            main.push("  PRINT 1".into());
            main.push("ELSEIF -1 THEN".into());
            mark = (0, put(&mut main, "  "));
            main.push("END IF".into());
        }
        "case" => {
            main.push("SELECT CASE 1".into());
            main.push("CASE 1".into());
            mark = (0, put(&mut main, "  "));
            main.push("END SELECT".into());
        }
        "case-else" => {
            main.push("SELECT CASE 1".into());
            main.push("CASE 2".into());
            main.push("  PRINT 1".into());
            main.push("CASE ELSE".into());
            mark = (0, put(&mut main, "  "));
            main.push("END SELECT".into());
        }
        "for" => {
            main.push("FOR ZI% = 1 TO 1".into());
            mark = (0, put(&mut main, "  "));
            main.push("NEXT".into());
        }
        "while" => {
            main.push("ZW% = 0".into());
            main.push("WHILE ZW% < 1".into());
            main.push("  ZW% = ZW% + 1".into());
            mark = (0, put(&mut main, "  "));
            main.push("WEND".into());
        }
        "do" => {
            main.push("DO".into());
            mark = (0, put(&mut main, "  "));
            main.push("LOOP UNTIL -1".into());
        }
        "ifline-then" => {
            if !single || stmt[0].starts_with("IF ") {
                return None;
            }
            mark = (0, main.len());
            main.push(format!("IF -1 THEN {}", stmt[0]));
        }
        "ifline-else" => {
            if !single || stmt[0].starts_with("IF ") {
                return None;
            }
            mark = (0, main.len());
            main.push(format!("IF 0 THEN PRINT 1 ELSE {}", stmt[0]));
        }
        "sub" => {
            main.push("CtxS".into());
            procs.push("SUB CtxS".into());
            mark = (2, put(&mut procs, "  "));
            procs.push("END SUB".into());
        }
        "function" => {
            main.push("ZN# = CtxF%(1)".into());
            procs.push("FUNCTION CtxF% (P%)".into());
            mark = (2, put(&mut procs, "  "));
            procs.push("  CtxF% = 1".into());
            procs.push("END FUNCTION".into());
        }
        "sub>for>else" => {
            main.push("CtxS".into());
            procs.push("SUB CtxS".into());
            procs.push("  FOR ZI% = 1 TO 1".into());
            procs.push("    IF 0 THEN".into());
            procs.push("      PRINT 1".into());
            procs.push("    ELSE".into());
            mark = (2, put(&mut procs, "      "));
            procs.push("    END IF".into());
            procs.push("  NEXT".into());
            procs.push("END SUB".into());
        }
        "gosub-routine" => {
            main.push("GOSUB Rt".into());
            tail.push("Rt:".into());
            mark = (1, put(&mut tail, ""));
            tail.push("RETURN".into());
        }
        _ => {
            main.push("SELECT CASE 1".into());
            main.push("CASE 2".into());
            main.push("  PRINT 1".into());
            main.push("CASE ELSE".into());
            main.push("  DO".into());
            mark = (0, put(&mut main, "    "));
            main.push("  LOOP UNTIL -1".into());
            main.push("END SELECT".into());
        }
    }
    main.push("END".into());
    let main_len = main.len();
    let tail_len = tail.len();
    let mut lines = main;
    lines.extend(tail);
    lines.extend(procs);
    let base = match mark.0 {
        0 => 0,
        1 => main_len,
        _ => main_len + tail_len,
    };
    let first = (base + mark.1 + 1) as u32;
    let last = first + stmt.len() as u32 - 1;
    let mut text = lines.join("\n");
    text.push('\n');
    Some(Case { text, rows: (first, last) })
}

pub fn fill(position: &[&str], e: &str) -> Vec<String> {
    position.iter().map(|l| l.replace("{e}", e)).collect()
}

/// Well-typed expressions of the WRONG type: strings where a number is required. They are placed at every numeric
/// position except the items of PRINT / LPRINT / PRINT # lists (which take any type); reference position `ZN# = {e}`.
pub const PLAIN_STR_AS_NUM: [&str; 7] = ["\"a\"", "ZS$", "REC.S", "SARR$(1)", "FnS$(\"a\")", "UCASE$(\"a\")", "(\"a\" + ZS$)"];
/// Numbers where a string is required; reference position `ZS$ = {e}`.
pub const PLAIN_NUM_AS_STR: [&str; 7] = ["5", "ZN#", "REC.N", "ARR%(1)", "Fn1%(1)", "LEN(\"a\")", "(ZN# + 1)"];

fn takes_any_type(position: &[&str]) -> bool {
    let l = position.iter().find(|l| l.contains("{e}")).unwrap();
    // `{e}` directly as a print item (not inside a call or parentheses of its own is still a print item)
    // (PRINT USING decides at run time whether a value suits its field)
    (l.starts_with("PRINT") || l.starts_with("LPRINT")) && !l.contains("({e}") && !l.contains(", {e})")
}

fn strict_num_positions() -> Vec<usize> {
    (0..NUM_POSITIONS.len()).filter(|p| !takes_any_type(NUM_POSITIONS[*p])).filter(|p| !NUM_POSITIONS[*p][0].starts_with("PRINT ({e})")).collect()
}

fn strict_str_positions() -> Vec<usize> {
    // LEN(variable) is defined for variables of every type (its size in bytes)
    (0..STR_POSITIONS.len()).filter(|p| !takes_any_type(STR_POSITIONS[*p])).filter(|p| !STR_POSITIONS[*p][0].starts_with("PRINT ({e})") && !STR_POSITIONS[*p][0].contains("LEN({e})")).collect()
}

const NUM_REFERENCE: usize = 4; // ZN# = {e}
const STR_REFERENCE: usize = 3; // ZS$ = {e}

/// Number of (fault, position) pairs: numeric faults x numeric positions, string faults x string positions, statement
/// faults, wrong-type expressions x the positions that require the other type.
pub fn pairs() -> usize {
    NUM_FAULTS.len() * NUM_POSITIONS.len() + STR_FAULTS.len() * STR_POSITIONS.len() + STMT_FAULTS.len() + PLAIN_STR_AS_NUM.len() * strict_num_positions().len() + PLAIN_NUM_AS_STR.len() * strict_str_positions().len()
}

/// (fault text, position label, statement lines, index of the reference pair of this fault) of pair `k`.
pub fn pair(k: usize) -> (String, String, Vec<String>, usize) {
    let nn = NUM_FAULTS.len() * NUM_POSITIONS.len();
    let ns = STR_FAULTS.len() * STR_POSITIONS.len();
    if k < nn {
        let (f, p) = (k / NUM_POSITIONS.len(), k % NUM_POSITIONS.len());
        (NUM_FAULTS[f].to_string(), format!("num-position-{}:{}", p, NUM_POSITIONS[p][NUM_POSITIONS[p].iter().position(|l| l.contains("{e}")).unwrap()]), fill(NUM_POSITIONS[p], NUM_FAULTS[f]), f * NUM_POSITIONS.len())
    } else if k < nn + ns {
        let j = k - nn;
        let (f, p) = (j / STR_POSITIONS.len(), j % STR_POSITIONS.len());
        (STR_FAULTS[f].to_string(), format!("str-position-{}:{}", p, STR_POSITIONS[p][STR_POSITIONS[p].iter().position(|l| l.contains("{e}")).unwrap()]), fill(STR_POSITIONS[p], STR_FAULTS[f]), nn + f * STR_POSITIONS.len())
    } else if k < nn + ns + STMT_FAULTS.len() {
        let j = k - nn - ns;
        (STMT_FAULTS[j].to_string(), "statement".to_string(), vec![STMT_FAULTS[j].to_string()], k)
    } else {
        let base = nn + ns + STMT_FAULTS.len();
        let j = k - base;
        let np = strict_num_positions();
        let sp = strict_str_positions();
        let n1 = PLAIN_STR_AS_NUM.len() * np.len();
        if j < n1 {
            let (f, pi) = (j / np.len(), j % np.len());
            let p = np[pi];
            let refk = base + f * np.len() + np.iter().position(|x| *x == NUM_REFERENCE).expect("reference position is strict");
            (PLAIN_STR_AS_NUM[f].to_string(), format!("num-position-{}:{}", p, NUM_POSITIONS[p][NUM_POSITIONS[p].iter().position(|l| l.contains("{e}")).unwrap()]), fill(NUM_POSITIONS[p], PLAIN_STR_AS_NUM[f]), refk)
        } else {
            let j = j - n1;
            let (f, pi) = (j / sp.len(), j % sp.len());
            let p = sp[pi];
            let refk = base + n1 + f * sp.len() + sp.iter().position(|x| *x == STR_REFERENCE).expect("reference position is strict");
            (PLAIN_NUM_AS_STR[f].to_string(), format!("str-position-{}:{}", p, STR_POSITIONS[p][STR_POSITIONS[p].iter().position(|l| l.contains("{e}")).unwrap()]), fill(STR_POSITIONS[p], PLAIN_NUM_AS_STR[f]), refk)
        }
    }
}

#[cfg(test)]
mod tests {
    use super::*;
    #[test]
    fn reference_positions() {
        assert_eq!(NUM_POSITIONS[NUM_REFERENCE][0], "ZN# = {e}");
        assert_eq!(STR_POSITIONS[STR_REFERENCE][0], "ZS$ = {e}");
        for k in 0..pairs() {
            let (_, _, _, r) = pair(k);
            assert!(r < pairs());
        }
    }
}

// ------------------------------------------------------------------------------------------------
// Jump x scope matrix: a label belongs to the main module or to the one subprogram it is written in.
// ------------------------------------------------------------------------------------------------

pub const JUMP_KINDS: [&str; 2] = ["GOTO", "GOSUB"];
pub const JUMP_SOURCES: [&str; 4] = ["main-before-subprograms", "main-after-subprograms", "sub", "function"];
pub const JUMP_TARGETS: [(&str, &str); 5] = [("LM1", "main-before-subprograms"), ("LM2", "main-after-subprograms"), ("LS1", "sub"), ("LF1", "function"), ("LO1", "other-sub")];

pub struct JumpCase {
    pub text: String,
    pub row: u32,
    pub same_scope: bool,
    pub label: String,
}

/// A program with one jump statement in the given source scope to a label written in the given target scope.
/// Every label is followed by a guard that ends the program after a few visits, so accepted programs terminate.
pub fn jump_case(kind: usize, source: usize, target: usize, order: usize) -> JumpCase {
    let stmt = format!("{} {}", JUMP_KINDS[kind], JUMP_TARGETS[target].0);
    let guard = |lines: &mut Vec<String>, label: &str, indent: &str| {
        lines.push(format!("{}:", label));
        lines.push(format!("{}ZG% = ZG% + 1", indent));
        lines.push(format!("{}IF ZG% > 12 THEN END", indent));
        lines.push(format!("{}PRINT \"{}\"", indent, label));
    };
    let mut lines: Vec<String> = vec!["DIM SHARED ZG%".into(), "PRINT \"m1\"".into()];
    if source == 0 {
        lines.push(stmt.clone());
    }
    guard(&mut lines, "LM1", "");
    lines.push("CtxS".into());
    lines.push("ZN# = CtxF%(1)".into());
    lines.push("Other".into());
    // the three subprograms, in one of three textual orders (the last one is directly followed by main-module code)
    let mut blocks: Vec<Vec<String>> = vec![];
    {
        let mut b: Vec<String> = vec!["SUB CtxS".into(), "  PRINT \"s1\"".into()];
        if source == 2 {
            b.push(format!("  {}", stmt));
        }
        guard(&mut b, "LS1", "  ");
        b.push("END SUB".into());
        blocks.push(b);
    }
    {
        let mut b: Vec<String> = vec!["FUNCTION CtxF% (P%)".into(), "  PRINT \"f1\"".into()];
        if source == 3 {
            b.push(format!("  {}", stmt));
        }
        guard(&mut b, "LF1", "  ");
        b.push("  CtxF% = 1".into());
        b.push("END FUNCTION".into());
        blocks.push(b);
    }
    {
        let mut b: Vec<String> = vec!["SUB Other".into()];
        guard(&mut b, "LO1", "  ");
        b.push("END SUB".into());
        blocks.push(b);
    }
    for k in 0..3 {
        lines.extend(blocks[(k + order) % 3].clone());
    }
    lines.push("PRINT \"m2\"".into());
    if source == 1 {
        lines.push(stmt.clone());
    }
    guard(&mut lines, "LM2", "");
    lines.push("END".into());
    let row = lines.iter().position(|l| l.trim() == stmt).map(|i| i as u32 + 1).unwrap_or(0);
    let src_scope = match source {
        0 | 1 => "main",
        2 => "sub",
        _ => "function",
    };
    let tgt_scope = match target {
        0 | 1 => "main",
        2 => "sub",
        3 => "function",
        _ => "other-sub",
    };
    let mut text = lines.join("\n");
    text.push('\n');
    JumpCase { text, row, same_scope: src_scope == tgt_scope, label: format!("{} from {} to {} ({})", JUMP_KINDS[kind], JUMP_SOURCES[source], JUMP_TARGETS[target].0, JUMP_TARGETS[target].1) }
}

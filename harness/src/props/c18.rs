//! C18 — files read back what was written; handles follow the open/close protocol.
//!
//! Generator 1 (stateful, model-based): histories of 3-25 file operations over handles #1-#3 and
//! three scratch file names (plus one name in a directory that does not exist), rendered as one
//! BASIC program (one statement per operation under `ON ERROR GOTO h` / `RESUME NEXT`), checked
//! against a model of the store and of the handle table written from the property statement.
//! A sample of the protocol violations is also observed without a handler, as the last statement
//! of its own program. An open RANDOM file may get several FIELD statements (overlays of the record
//! buffer with variables and widths of their own, or an earlier FIELD once more); records are then
//! composed through any of the lists and GET must fill the variables of every list from the first
//! byte of the record. Generator 2: the same byte stream read once through a file and once
//! through standard input by the same sequence of INPUT / LINE INPUT statements.

use std::collections::BTreeMap;

use serde_json::{Value, json};

use crate::engine::{Shard, Tape, Violation, hash64};
use crate::impl_run::{self, End, FrontErr, RunOpts};
use crate::props::Prop;

pub struct C18;

const BUDGET: u64 = 2_000_000;
/// Scratch names 0..2 live in the worker's cwd; name 3 is in a directory that does not exist.
const NAMES: [&str; 4] = ["c18a.txt", "c18b.txt", "c18c.txt", "c18nodir/x.txt"];
const NODIR: usize = 3;
const NODIR_DIR: &str = "c18nodir";
const ZONE: usize = 14;
const MAX_COL: usize = 40;
/// FIELD lists with variables of their own per open RANDOM file
const MAX_LISTS: usize = 3;

const SIG_PRINT_PANIC: &str = "print#-bad-handle:panic:File-not-found-expect";
const SIG_FIELD_SEQ: &str = "field:sequential-handle:no-error";
const SIG_CONSOLE_LINE_INPUT: &str = "console-vs-file:line-input:console-reads-one-field";

// ------------------------------------------------------------------------------------------------
// operations
// ------------------------------------------------------------------------------------------------

#[derive(Clone, Copy, PartialEq, Eq, Debug, Hash)]
enum Mode {
    Input,
    Output,
    Append,
    Random,
}

impl Mode {
    fn kw(&self) -> &'static str {
        match self {
            Mode::Input => "INPUT",
            Mode::Output => "OUTPUT",
            Mode::Append => "APPEND",
            Mode::Random => "RANDOM",
        }
    }
    fn lc(&self) -> &'static str {
        match self {
            Mode::Input => "input",
            Mode::Output => "output",
            Mode::Append => "append",
            Mode::Random => "random",
        }
    }
}

#[derive(Clone, Copy, PartialEq, Eq, Debug, Hash)]
enum VarT {
    Str,
    Int,
    Long,
    Sng,
    Dbl,
}

impl VarT {
    fn suffix(&self) -> &'static str {
        match self {
            VarT::Str => "$",
            VarT::Int => "%",
            VarT::Long => "&",
            VarT::Sng => "!",
            VarT::Dbl => "#",
        }
    }
}

#[derive(Clone, PartialEq, Eq, Debug, Hash)]
enum Item {
    S(String),
    N(i64),
}

#[derive(Clone, Copy, PartialEq, Eq, Debug, Hash)]
enum Sep {
    Semi,
    Comma,
}

#[derive(Clone, PartialEq, Eq, Debug, Hash)]
enum Op {
    Open { h: usize, name: usize, mode: Mode, len: usize },
    /// items, each followed by an optional separator (the last one: trailing separator)
    Print { h: usize, items: Vec<(Item, Option<Sep>)> },
    Input { h: usize, vars: Vec<VarT> },
    LineInput { h: usize },
    Eof { h: usize },
    /// empty = CLOSE (all)
    Close(Vec<usize>),
    Kill { name: usize },
    Name { from: usize, to: usize },
    /// `list` says which set of variables the statement names: the number of lists declared so far
    /// on the handle = a NEW list (an overlay of the same record buffer, variables of its own), a
    /// smaller number = that earlier FIELD statement once more (same variables, same widths)
    Field { h: usize, widths: Vec<usize>, list: usize },
    Lset { h: usize, list: usize, idx: usize, val: String },
    Put { h: usize, rec: i64 },
    Get { h: usize, rec: i64 },
}

impl Op {
    fn kind(&self) -> &'static str {
        match self {
            Op::Open { mode, .. } => match mode {
                Mode::Input => "open-input",
                Mode::Output => "open-output",
                Mode::Append => "open-append",
                Mode::Random => "open-random",
            },
            Op::Print { .. } => "print#",
            Op::Input { .. } => "input#",
            Op::LineInput { .. } => "line-input#",
            Op::Eof { .. } => "eof",
            Op::Close(v) => {
                if v.is_empty() {
                    "close-all"
                } else {
                    "close"
                }
            }
            Op::Kill { .. } => "kill",
            Op::Name { .. } => "name",
            Op::Field { .. } => "field",
            Op::Lset { .. } => "lset",
            Op::Put { .. } => "put",
            Op::Get { .. } => "get",
        }
    }
}

fn fmt_num(n: i64) -> String {
    if n < 0 { format!("{} ", n) } else { format!(" {} ", n) }
}

/// Variable `idx` of FIELD list `list` of handle `h` (list 0 keeps the historical names).
fn field_var(h: usize, list: usize, idx: usize) -> String {
    if list == 0 {
        format!("f{}{}$", h + 1, (b'a' + idx as u8) as char)
    } else {
        format!("f{}{}{}$", h + 1, (b'a' + idx as u8) as char, list)
    }
}

/// Statement text of an operation; `k` is the 1-based position (used for fresh variable names).
/// Returns (statement, optional statement that prints the values read).
fn render_op(op: &Op, k: usize, nfields: usize, show: &[(usize, usize)]) -> (String, Option<String>) {
    match op {
        Op::Open { h, name, mode, len } => {
            let tail = if *mode == Mode::Random { format!(" LEN = {}", len) } else { String::new() };
            (format!("OPEN \"{}\" FOR {} AS #{}{}", NAMES[*name], mode.kw(), h + 1, tail), None)
        }
        Op::Print { h, items } => {
            let mut s = format!("PRINT #{},", h + 1);
            for (it, sep) in items {
                s.push(' ');
                match it {
                    Item::S(t) => s.push_str(&format!("\"{}\"", t)),
                    Item::N(n) => s.push_str(&n.to_string()),
                }
                match sep {
                    Some(Sep::Semi) => s.push(';'),
                    Some(Sep::Comma) => s.push(','),
                    None => {}
                }
            }
            (s, None)
        }
        Op::Input { h, vars } => {
            let names: Vec<String> = vars.iter().enumerate().map(|(j, v)| format!("v{}{}{}", k, (b'a' + j as u8) as char, v.suffix())).collect();
            let show = names.iter().map(|n| format!("{}; \"]", n)).collect::<Vec<_>>().join("[\"; ");
            (format!("INPUT #{}, {}", h + 1, names.join(", ")), Some(format!("PRINT \"V{}[\"; {}\"", k, show)))
        }
        Op::LineInput { h } => (format!("LINE INPUT #{}, v{}a$", h + 1, k), Some(format!("PRINT \"V{}[\"; v{}a$; \"]\"", k, k))),
        Op::Eof { h } => (format!("v{}e% = EOF({})", k, h + 1), Some(format!("PRINT \"V{}[\"; v{}e%; \"]\"", k, k))),
        Op::Close(v) => {
            if v.is_empty() {
                ("CLOSE".to_string(), None)
            } else {
                (format!("CLOSE {}", v.iter().map(|h| format!("#{}", h + 1)).collect::<Vec<_>>().join(", ")), None)
            }
        }
        Op::Kill { name } => (format!("KILL \"{}\"", NAMES[*name]), None),
        Op::Name { from, to } => (format!("NAME \"{}\" AS \"{}\"", NAMES[*from], NAMES[*to]), None),
        Op::Field { h, widths, list } => {
            // a FIELD that the model expects to fail (nfields == 0) uses variables of its own
            let parts: Vec<String> = widths
                .iter()
                .enumerate()
                .map(|(i, w)| if nfields == 0 { format!("{} AS fx{}{}$", w, k, (b'a' + i as u8) as char) } else { format!("{} AS {}", w, field_var(*h, *list, i)) })
                .collect();
            (format!("FIELD #{}, {}", h + 1, parts.join(", ")), None)
        }
        Op::Lset { h, list, idx, val } => (format!("LSET {} = \"{}\"", field_var(*h, *list, *idx), val), None),
        Op::Put { h, rec } => (format!("PUT #{}, {}", h + 1, rec), None),
        Op::Get { h, rec } => {
            // every variable of every FIELD list of the handle
            let show = show.iter().map(|(l, i)| format!("{}; \"]", field_var(*h, *l, *i))).collect::<Vec<_>>().join("[\"; ");
            let v = if nfields == 0 { None } else { Some(format!("PRINT \"V{}[\"; {}\"", k, show)) };
            (format!("GET #{}, {}", h + 1, rec), v)
        }
    }
}

// ------------------------------------------------------------------------------------------------
// the model: store (name -> bytes) and handle table, written from the property statement
// ------------------------------------------------------------------------------------------------

#[derive(Clone, PartialEq, Debug)]
enum Content {
    Known(Vec<u8>),
    /// exists, bytes not pinned by the statement (a RANDOM file)
    Unknown,
}

#[derive(Clone, Debug)]
struct FileSt {
    content: Content,
    /// holds bytes written by PRINT # in this history
    printed: bool,
    /// ... through a handle opened FOR OUTPUT
    printed_by_output: bool,
    last_touch: &'static str,
}

#[derive(Clone, Debug)]
struct Hd {
    name: usize,
    mode: Mode,
    /// read position (Input)
    pos: usize,
    /// print column (Output/Append); None = not determined
    col: Option<usize>,
    reclen: usize,
    /// FIELD lists declared in this session (widths); every list describes the record buffer from
    /// its first byte (documented: any number of FIELD statements may be in effect for one file)
    lists: Vec<Vec<usize>>,
    /// FIELD statements executed in this session (repeats included)
    field_stmts: usize,
    /// per variable: it was assigned (LSET / GET) after every LSET through an overlapping variable
    /// of another list, i.e. its own value is what the record buffer holds at its position
    fresh: Vec<Vec<bool>>,
    /// the list addressed by the latest LSET, or declared by a later FIELD
    cur: Option<usize>,
    /// the record buffer (QBasic: one buffer per file, all field variables are windows of it)
    rbuf: Vec<Cell>,
    /// record number -> (record as PUT, sequence number of the PUT)
    recs: BTreeMap<i64, (Vec<Cell>, u64)>,
    puts: u64,
}

/// One byte of a record buffer as far as the statement pins it.
#[derive(Clone, Copy, PartialEq, Eq, Debug, Hash)]
enum Cell {
    B(u8),
    /// padding of a value shorter than its field (blank in QBasic, NUL here: not pinned which)
    Pad,
    /// not pinned
    Any,
}

const MASK_PAD: u8 = 1;
const MASK_ANY: u8 = 2;

fn cells_to_mask(c: &[Cell]) -> Vec<u8> {
    c.iter()
        .map(|x| match x {
            Cell::B(b) => *b,
            Cell::Pad => MASK_PAD,
            Cell::Any => MASK_ANY,
        })
        .collect()
}

fn lset_cells(val: &[u8], width: usize) -> Vec<Cell> {
    (0..width).map(|i| if i < val.len() { Cell::B(val[i]) } else { Cell::Pad }).collect()
}

impl Hd {
    fn offset(&self, list: usize, idx: usize) -> usize {
        self.lists[list][..idx].iter().sum()
    }
    fn total(&self, list: usize) -> usize {
        self.lists[list].iter().sum()
    }
    /// (list, idx) of every field variable, in declaration order
    fn all_vars(&self) -> Vec<(usize, usize)> {
        self.lists.iter().enumerate().flat_map(|(l, w)| (0..w.len()).map(move |i| (l, i))).collect()
    }
    fn var_cells(&self, list: usize, idx: usize) -> &[Cell] {
        let o = self.offset(list, idx);
        &self.rbuf[o..o + self.lists[list][idx]]
    }
}

/// Which error the statement demands.
#[derive(Clone, PartialEq, Debug)]
enum ErrSet {
    Exact(i32),
    OneOf(Vec<i32>),
    /// "a file error": any code 50..=76
    FileError,
}

impl ErrSet {
    fn contains(&self, c: i32) -> bool {
        match self {
            ErrSet::Exact(e) => *e == c,
            ErrSet::OneOf(v) => v.contains(&c),
            ErrSet::FileError => (50..=76).contains(&c),
        }
    }
    fn to_json(&self) -> Value {
        match self {
            ErrSet::Exact(e) => json!([e]),
            ErrSet::OneOf(v) => json!(v),
            ErrSet::FileError => json!("file-error"),
        }
    }
    fn from_json(v: &Value) -> ErrSet {
        match v {
            Value::Array(a) if a.len() == 1 => ErrSet::Exact(a[0].as_i64().unwrap_or(0) as i32),
            Value::Array(a) => ErrSet::OneOf(a.iter().map(|x| x.as_i64().unwrap_or(0) as i32).collect()),
            _ => ErrSet::FileError,
        }
    }
    fn describe(&self) -> String {
        match self {
            ErrSet::Exact(e) => format!("error {}", e),
            ErrSet::OneOf(v) => format!("one of the errors {:?}", v),
            ErrSet::FileError => "a file error (50..76)".to_string(),
        }
    }
}

/// How an observed value is compared with the expected one.
#[derive(Clone, Copy, PartialEq, Debug)]
enum Cmp {
    Exact,
    /// trailing blanks are not pinned (INPUT # string fields)
    RTrim,
    /// trailing blanks / NULs are not pinned (field padding of RANDOM records)
    Pad,
    /// byte by byte: MASK_PAD = blank or NUL, MASK_ANY = any byte, else exactly that byte; bytes
    /// missing at the end count as padding (a field variable of a RANDOM record)
    Mask,
}

#[derive(Clone, Debug)]
struct ValSpec {
    cmp: Cmp,
    text: Vec<u8>,
}

#[derive(Clone, Debug)]
struct Outcome {
    /// None = succeeds
    err: Option<ErrSet>,
    vals: Vec<ValSpec>,
    /// kind.situation, e.g. "input#:past-end"
    class: String,
    /// protocol violation kind, if this operation is one
    viol: Option<String>,
    /// number of FIELD variables printed after a GET (0 for a FIELD = it is expected to fail)
    nfields: usize,
    /// (list, idx) of the variables printed after a GET
    show: Vec<(usize, usize)>,
    /// a successful operation that moved data or opened a file (counts as "further successful operation")
    substantive: bool,
}

#[derive(Clone, Debug, Default)]
struct Chains {
    write_reopen_read: bool,
    append_after_output: bool,
    put_get_interleaved: bool,
    /// a GET filled variables of two or more FIELD lists of the handle
    get_through_overlay: bool,
    violation_then_success: bool,
    violations: u32,
    two_readers_same_file: bool,
}

#[derive(Clone, Debug)]
struct Model {
    files: [Option<FileSt>; 3],
    hd: [Option<Hd>; 3],
    chains: Chains,
}

enum FieldRead {
    PastEnd,
    Undetermined(&'static str),
    Val(Vec<u8>),
}

fn is_eol(b: u8) -> bool {
    b == 13 || b == 10
}

fn eat_terminator(c: &[u8], pos: &mut usize) {
    if *pos < c.len() {
        if c[*pos] == 13 {
            *pos += 1;
            if *pos < c.len() && c[*pos] == 10 {
                *pos += 1;
            }
        } else {
            // comma or LF
            *pos += 1;
        }
    }
}

/// One INPUT # field: leading blanks are skipped, the field ends at a comma or at the end of the
/// line (the terminator is consumed) or at the end of the file.
fn read_field(c: &[u8], pos: &mut usize) -> FieldRead {
    if *pos >= c.len() {
        return FieldRead::PastEnd;
    }
    let mut p = *pos;
    while p < c.len() && c[p] == b' ' {
        p += 1;
    }
    if p >= c.len() {
        return FieldRead::Undetermined("INPUT # of a blank-only tail at the end of the file");
    }
    let st = p;
    while p < c.len() && c[p] != b',' && !is_eol(c[p]) {
        p += 1;
    }
    let v = c[st..p].to_vec();
    eat_terminator(c, &mut p);
    *pos = p;
    FieldRead::Val(v)
}

fn read_line(c: &[u8], pos: &mut usize) -> Option<Vec<u8>> {
    if *pos >= c.len() {
        return None;
    }
    let mut p = *pos;
    let st = p;
    while p < c.len() && !is_eol(c[p]) {
        p += 1;
    }
    let v = c[st..p].to_vec();
    if p < c.len() {
        eat_terminator(c, &mut p);
    }
    *pos = p;
    Some(v)
}

fn rtrim(v: &[u8], pad: &[u8]) -> Vec<u8> {
    let mut e = v.len();
    while e > 0 && pad.contains(&v[e - 1]) {
        e -= 1;
    }
    v[..e].to_vec()
}

/// The whole number a field denotes when it is a plain small integer, else None.
fn small_int(field: &[u8]) -> Option<i64> {
    let t = rtrim(field, b" ");
    let s = std::str::from_utf8(&t).ok()?;
    let digits = s.strip_prefix('-').unwrap_or(s);
    if digits.is_empty() || digits.len() > 10 || !digits.bytes().all(|b| b.is_ascii_digit()) {
        return None;
    }
    s.parse::<i64>().ok().filter(|v| v.abs() <= 2147483647)
}

/// A numeric variable type that holds the whole number `v` exactly and prints it digit by digit
/// (beyond three digits only LONG and DOUBLE are drawn: the value must come back unchanged through them).
fn num_type_for(t: &mut Tape, v: i64) -> VarT {
    if v.abs() <= 999 { num_type(t) } else { *t.pick(&[VarT::Long, VarT::Dbl, VarT::Long]) }
}

fn ok_outcome(class: String, substantive: bool) -> Outcome {
    Outcome { err: None, vals: vec![], class, viol: None, nfields: 0, show: vec![], substantive }
}

fn err_outcome(kind: &str, situation: &str, e: ErrSet) -> Outcome {
    Outcome { err: Some(e), vals: vec![], class: format!("{}:{}", kind, situation), viol: Some(format!("{}:{}", kind, situation)), nfields: 0, show: vec![], substantive: false }
}

impl Model {
    fn new(init: &[Option<Vec<u8>>; 3]) -> Model {
        let f = |c: &Option<Vec<u8>>| c.as_ref().map(|b| FileSt { content: Content::Known(b.clone()), printed: false, printed_by_output: false, last_touch: "initial" });
        Model { files: [f(&init[0]), f(&init[1]), f(&init[2])], hd: [None, None, None], chains: Chains::default() }
    }

    fn open_on(&self, name: usize) -> Vec<usize> {
        (0..3).filter(|h| self.hd[*h].as_ref().map(|x| x.name == name).unwrap_or(false)).collect()
    }

    /// Applies one operation. Err(reason) = the statement does not determine the result.
    fn apply(&mut self, op: &Op) -> Result<Outcome, &'static str> {
        let kind = op.kind();
        let out = self.apply_inner(op, kind)?;
        if out.err.is_some() {
            self.chains.violations += 1;
        } else if out.substantive && self.chains.violations > 0 {
            self.chains.violation_then_success = true;
        }
        Ok(out)
    }

    fn apply_inner(&mut self, op: &Op, kind: &'static str) -> Result<Outcome, &'static str> {
        match op {
            Op::Open { h, name, mode, len } => {
                if self.hd[*h].is_some() {
                    // the other conditions must hold, so that 55 is the only error that applies
                    if *name == NODIR {
                        return Err("OPEN of an uncreatable name on a handle in use (two errors apply)");
                    }
                    if *mode == Mode::Input && self.files[*name].is_none() {
                        return Err("OPEN FOR INPUT of a missing file on a handle in use (two errors apply)");
                    }
                    if !self.open_on(*name).is_empty() {
                        return Err("OPEN of a file that is open on another handle");
                    }
                    return Ok(err_outcome(kind, "handle-in-use", ErrSet::Exact(55)));
                }
                if *name == NODIR {
                    return Ok(match mode {
                        Mode::Input => err_outcome(kind, "nonexistent-directory", ErrSet::OneOf(vec![53, 76])),
                        _ => err_outcome(kind, "nonexistent-directory", ErrSet::FileError),
                    });
                }
                let others = self.open_on(*name);
                if !others.is_empty() {
                    let all_input = *mode == Mode::Input && others.iter().all(|o| self.hd[*o].as_ref().unwrap().mode == Mode::Input);
                    if !all_input {
                        return Err("OPEN of a file that is open on another handle");
                    }
                    self.chains.two_readers_same_file = true;
                }
                let mut hd = Hd { name: *name, mode: *mode, pos: 0, col: None, reclen: *len, lists: vec![], field_stmts: 0, fresh: vec![], cur: None, rbuf: vec![Cell::Any; *len], recs: BTreeMap::new(), puts: 0 };
                match mode {
                    Mode::Input => match &self.files[*name] {
                        None => return Ok(err_outcome(kind, "missing-file", ErrSet::Exact(53))),
                        Some(f) => {
                            if f.content == Content::Unknown {
                                return Err("OPEN FOR INPUT of a RANDOM file (bytes not pinned)");
                            }
                        }
                    },
                    Mode::Output => {
                        self.files[*name] = Some(FileSt { content: Content::Known(vec![]), printed: false, printed_by_output: false, last_touch: "open-output" });
                        hd.col = Some(0);
                    }
                    Mode::Append => match &mut self.files[*name] {
                        None => {
                            self.files[*name] = Some(FileSt { content: Content::Known(vec![]), printed: false, printed_by_output: false, last_touch: "open-append" });
                            hd.col = Some(0);
                        }
                        Some(f) => match &f.content {
                            Content::Unknown => return Err("OPEN FOR APPEND of a RANDOM file (bytes not pinned)"),
                            Content::Known(b) => {
                                hd.col = if b.is_empty() || b.ends_with(b"\r\n") { Some(0) } else { None };
                                f.last_touch = "open-append";
                            }
                        },
                    },
                    Mode::Random => {
                        self.files[*name] = Some(FileSt { content: Content::Unknown, printed: false, printed_by_output: false, last_touch: "open-random" });
                    }
                }
                self.hd[*h] = Some(hd);
                Ok(ok_outcome(format!("{}:ok", kind), true))
            }
            Op::Print { h, items } => {
                let Some(hd) = self.hd[*h].as_mut() else {
                    return Ok(err_outcome(kind, "closed-handle", ErrSet::FileError));
                };
                match hd.mode {
                    Mode::Input => return Ok(err_outcome(kind, "input-handle", ErrSet::FileError)),
                    Mode::Random => return Err("PRINT # on a RANDOM handle"),
                    _ => {}
                }
                let f = self.files[hd.name].as_mut().expect("open file exists");
                let Content::Known(bytes) = &mut f.content else { return Err("PRINT # to unknown content") };
                let mut col = hd.col;
                for (i, (it, sep)) in items.iter().enumerate() {
                    let text = match it {
                        Item::S(s) => s.clone(),
                        Item::N(n) => fmt_num(*n),
                    };
                    bytes.extend_from_slice(text.as_bytes());
                    col = col.map(|c| c + text.len());
                    match sep {
                        Some(Sep::Comma) => {
                            let Some(c) = col else { return Err("comma in PRINT # at an undetermined column") };
                            let pad = ZONE - c % ZONE;
                            bytes.extend(std::iter::repeat_n(b' ', pad));
                            col = Some(c + pad);
                        }
                        Some(Sep::Semi) => {}
                        None => {
                            if i + 1 != items.len() {
                                return Err("PRINT # items without separator");
                            }
                            bytes.extend_from_slice(b"\r\n");
                            col = Some(0);
                        }
                    }
                }
                hd.col = col;
                if hd.mode == Mode::Append && f.printed_by_output {
                    self.chains.append_after_output = true;
                }
                f.printed = true;
                if hd.mode == Mode::Output {
                    f.printed_by_output = true;
                }
                f.last_touch = if hd.mode == Mode::Append { "print#-append" } else { "print#-output" };
                Ok(ok_outcome(format!("{}:{}", kind, hd.mode.lc()), true))
            }
            Op::Input { h, vars } => {
                let Some(hd) = self.hd[*h].as_mut() else {
                    return Ok(err_outcome(kind, "closed-handle", ErrSet::FileError));
                };
                match hd.mode {
                    Mode::Output | Mode::Append => return Ok(err_outcome(kind, "output-handle", ErrSet::FileError)),
                    Mode::Random => return Err("INPUT # on a RANDOM handle"),
                    Mode::Input => {}
                }
                let f = self.files[hd.name].as_ref().expect("open file exists");
                let Content::Known(bytes) = &f.content else { return Err("read of unknown content") };
                let mut vals = vec![];
                for (j, vt) in vars.iter().enumerate() {
                    match read_field(bytes, &mut hd.pos) {
                        FieldRead::PastEnd => {
                            hd.pos = bytes.len();
                            let sit = if j == 0 { "past-end" } else { "past-end-after-some-fields" };
                            return Ok(err_outcome(kind, sit, ErrSet::Exact(62)));
                        }
                        FieldRead::Undetermined(r) => return Err(r),
                        FieldRead::Val(v) => match vt {
                            VarT::Str => vals.push(ValSpec { cmp: Cmp::RTrim, text: v }),
                            _ => match small_int(&v) {
                                Some(n) => vals.push(ValSpec { cmp: Cmp::Exact, text: fmt_num(n).into_bytes() }),
                                None => return Err("numeric INPUT # of a field that is not a plain small integer"),
                            },
                        },
                    }
                }
                if f.printed {
                    self.chains.write_reopen_read = true;
                }
                let class = format!("{}:{}", kind, if vars.len() == 1 { "one-variable" } else { "several-variables" });
                Ok(Outcome { err: None, vals, class, viol: None, nfields: 0, show: vec![], substantive: true })
            }
            Op::LineInput { h } => {
                let Some(hd) = self.hd[*h].as_mut() else {
                    return Ok(err_outcome(kind, "closed-handle", ErrSet::FileError));
                };
                match hd.mode {
                    Mode::Output | Mode::Append => return Ok(err_outcome(kind, "output-handle", ErrSet::FileError)),
                    Mode::Random => return Err("LINE INPUT # on a RANDOM handle"),
                    Mode::Input => {}
                }
                let f = self.files[hd.name].as_ref().expect("open file exists");
                let Content::Known(bytes) = &f.content else { return Err("read of unknown content") };
                let mid_line = hd.pos > 0 && !is_eol(bytes[hd.pos - 1]);
                match read_line(bytes, &mut hd.pos) {
                    None => Ok(err_outcome(kind, "past-end", ErrSet::Exact(62))),
                    Some(v) => {
                        if f.printed {
                            self.chains.write_reopen_read = true;
                        }
                        let class = format!("{}:{}", kind, if mid_line { "rest-of-line" } else { "whole-line" });
                        Ok(Outcome { err: None, vals: vec![ValSpec { cmp: Cmp::Exact, text: v }], class, viol: None, nfields: 0, show: vec![], substantive: true })
                    }
                }
            }
            Op::Eof { h } => {
                let Some(hd) = self.hd[*h].as_ref() else {
                    return Ok(err_outcome(kind, "closed-handle", ErrSet::FileError));
                };
                match hd.mode {
                    Mode::Output | Mode::Append => return Ok(err_outcome(kind, "output-handle", ErrSet::FileError)),
                    Mode::Random => return Err("EOF on a RANDOM handle"),
                    Mode::Input => {}
                }
                let f = self.files[hd.name].as_ref().expect("open file exists");
                let Content::Known(bytes) = &f.content else { return Err("read of unknown content") };
                let at_end = hd.pos >= bytes.len();
                let class = format!("{}:{}", kind, if at_end { "true" } else { "false" });
                Ok(Outcome { err: None, vals: vec![ValSpec { cmp: Cmp::Exact, text: fmt_num(if at_end { -1 } else { 0 }).into_bytes() }], class, viol: None, nfields: 0, show: vec![], substantive: false })
            }
            Op::Close(v) => {
                let mut any = false;
                if v.is_empty() {
                    for h in 0..3 {
                        any |= self.hd[h].take().is_some();
                    }
                } else {
                    for h in v {
                        any |= self.hd[*h].take().is_some();
                    }
                }
                Ok(ok_outcome(format!("{}:{}", kind, if any { "open-handle" } else { "nothing-open" }), false))
            }
            Op::Kill { name } => {
                if *name == NODIR {
                    return Ok(err_outcome(kind, "nonexistent-directory", ErrSet::FileError));
                }
                if !self.open_on(*name).is_empty() {
                    return Err("KILL of an open file");
                }
                if self.files[*name].is_none() {
                    return Ok(err_outcome(kind, "missing-file", ErrSet::FileError));
                }
                self.files[*name] = None;
                Ok(ok_outcome(format!("{}:ok", kind), true))
            }
            Op::Name { from, to } => {
                if from == to {
                    return Err("NAME of a file onto itself");
                }
                if *from == NODIR {
                    return Ok(err_outcome(kind, "missing-file", ErrSet::FileError));
                }
                if !self.open_on(*from).is_empty() || (*to != NODIR && !self.open_on(*to).is_empty()) {
                    return Err("NAME of an open file");
                }
                if self.files[*from].is_none() {
                    if *to != NODIR && self.files[*to].is_some() {
                        return Err("NAME of a missing file onto an existing one");
                    }
                    return Ok(err_outcome(kind, "missing-file", ErrSet::FileError));
                }
                if *to == NODIR {
                    return Ok(err_outcome(kind, "to-nonexistent-directory", ErrSet::FileError));
                }
                if self.files[*to].is_some() {
                    return Err("NAME onto an existing file");
                }
                let mut f = self.files[*from].take().unwrap();
                f.last_touch = "name";
                self.files[*to] = Some(f);
                Ok(ok_outcome(format!("{}:ok", kind), true))
            }
            Op::Field { h, widths, list } => {
                let Some(hd) = self.hd[*h].as_mut() else {
                    return Ok(err_outcome(kind, "closed-handle", ErrSet::FileError));
                };
                if hd.mode != Mode::Random {
                    return Ok(err_outcome(kind, "sequential-handle", ErrSet::FileError));
                }
                if widths.iter().sum::<usize>() > hd.reclen || widths.is_empty() {
                    return Err("FIELD wider than the record");
                }
                let situation = if *list < hd.lists.len() {
                    // the same FIELD statement once more: same variables, same layout
                    if hd.lists[*list] != *widths {
                        return Err("FIELD that gives variables of an earlier FIELD another layout");
                    }
                    "repeated"
                } else if *list == hd.lists.len() && hd.lists.len() < MAX_LISTS {
                    hd.lists.push(widths.clone());
                    hd.fresh.push(vec![false; widths.len()]);
                    if *list == 0 { "ok" } else { "overlay" }
                } else {
                    return Err("FIELD list number out of sequence");
                };
                hd.field_stmts += 1;
                hd.cur = Some(*list);
                let mut o = ok_outcome(format!("{}:{}", kind, situation), true);
                o.nfields = widths.len();
                Ok(o)
            }
            Op::Lset { h, list, idx, val } => {
                let Some(hd) = self.hd[*h].as_mut() else { return Err("LSET of a field variable of a closed file") };
                if hd.lists.is_empty() {
                    return Err("LSET without FIELD");
                }
                if hd.mode != Mode::Random || *list >= hd.lists.len() || *idx >= hd.lists[*list].len() || val.len() > hd.lists[*list][*idx] {
                    return Err("LSET of a value longer than the field");
                }
                let w = hd.lists[*list][*idx];
                let off = hd.offset(*list, *idx);
                let cells = lset_cells(val.as_bytes(), w);
                hd.rbuf[off..off + w].copy_from_slice(&cells);
                // windows of other lists onto these bytes no longer hold "their own" value
                for (l2, i2) in hd.all_vars() {
                    if l2 != *list {
                        let o2 = hd.offset(l2, i2);
                        let w2 = hd.lists[l2][i2];
                        if o2 < off + w && off < o2 + w2 {
                            hd.fresh[l2][i2] = false;
                        }
                    }
                }
                hd.fresh[*list][*idx] = true;
                hd.cur = Some(*list);
                let mut class = format!("{}:{}", kind, if val.len() == w { "full-width" } else { "shorter-than-field" });
                if hd.lists.len() > 1 {
                    class.push_str(if *list == 0 { "+first-of-several-lists" } else { "+overlay-list" });
                }
                Ok(ok_outcome(class, false))
            }
            Op::Put { h, rec } => {
                let Some(hd) = self.hd[*h].as_mut() else {
                    return Ok(err_outcome(kind, "closed-handle", ErrSet::FileError));
                };
                if hd.mode != Mode::Random {
                    return Ok(err_outcome(kind, "sequential-handle", ErrSet::FileError));
                }
                let Some(cur) = hd.cur else { return Err("PUT without FIELD") };
                if *rec < 1 {
                    return Err("record number below 1");
                }
                if hd.fresh[cur].iter().any(|f| !f) {
                    return Err("PUT while a variable of the FIELD list last addressed is unassigned or out of date");
                }
                hd.puts += 1;
                // the record = the buffer; bytes behind the list the record was composed through are not pinned
                let total = hd.total(cur);
                let mut cells = hd.rbuf.clone();
                for c in cells.iter_mut().skip(total) {
                    *c = Cell::Any;
                }
                let over = hd.recs.contains_key(rec);
                hd.recs.insert(*rec, (cells, hd.puts));
                let mut class = format!("{}:{}", kind, if over { "overwrite-record" } else { "new-record" });
                if hd.lists.len() > 1 {
                    class.push_str(if cur == 0 { "+through-first-of-several-lists" } else { "+through-overlay-list" });
                }
                Ok(ok_outcome(class, true))
            }
            Op::Get { h, rec } => {
                let Some(hd) = self.hd[*h].as_mut() else {
                    return Ok(err_outcome(kind, "closed-handle", ErrSet::FileError));
                };
                if hd.mode != Mode::Random {
                    return Ok(err_outcome(kind, "sequential-handle", ErrSet::FileError));
                }
                if hd.lists.is_empty() {
                    return Err("GET without FIELD");
                }
                let Some((cells, seq)) = hd.recs.get(rec).cloned() else { return Err("GET of a record not written in this session") };
                let interleaved = hd.recs.iter().any(|(r, (_, s))| r != rec && *s > seq);
                if interleaved {
                    self.chains.put_get_interleaved = true;
                }
                // the record goes into the buffer; EVERY variable of EVERY list is a window of it
                hd.rbuf = cells.clone();
                for f in hd.fresh.iter_mut().flatten() {
                    *f = true;
                }
                let show = hd.all_vars();
                let specs: Vec<ValSpec> = show.iter().map(|(l, i)| ValSpec { cmp: Cmp::Mask, text: cells_to_mask(hd.var_cells(*l, *i)) }).collect();
                let mut class = format!("{}:{}", kind, if interleaved { "other-record-written-since" } else { "latest-put" });
                if hd.lists.len() > 1 {
                    self.chains.get_through_overlay = true;
                    class.push_str(&format!("+{}-field-lists", hd.lists.len()));
                }
                if hd.field_stmts > hd.lists.len() {
                    class.push_str("+field-repeated");
                }
                Ok(Outcome { err: None, vals: specs, class, viol: None, nfields: show.len(), show, substantive: true })
            }
        }
    }
}

// ------------------------------------------------------------------------------------------------
// rendered cases (everything `replay` needs; no generator involved from here on)
// ------------------------------------------------------------------------------------------------

#[derive(Clone, Debug)]
struct StepSpec {
    k: usize,
    stmt: String,
    class: String,
    err: Option<ErrSet>,
    /// Some = the program prints a `V<k>[..]` line after the statement
    vals: Option<Vec<ValSpec>>,
}

#[derive(Clone, Debug, PartialEq)]
enum FinalSpec {
    Absent,
    /// must exist; bytes not pinned
    Exists,
    Bytes(Vec<u8>, String),
    /// still open for writing when the program ends (no-handler programs): not compared
    Skip,
}

#[derive(Clone, Copy, PartialEq, Debug)]
enum PMode {
    Handler,
    Last,
}

#[derive(Clone, Debug)]
struct Case {
    mode: PMode,
    init: [Option<Vec<u8>>; 3],
    program: String,
    steps: Vec<StepSpec>,
    finals: [FinalSpec; 3],
}

const SENTINEL_SETUP: &str = "s1% = 4711: s2$ = \"keep me\": s3& = 70000";
const SENTINEL_PRINT: &str = "PRINT \"S[\"; s1%; \"][\"; s2$; \"][\"; s3&; \"]\"";
const SENTINEL_LINE: &str = "S[ 4711 ][keep me][ 70000 ]";

fn bstr(v: &[u8]) -> String {
    String::from_utf8_lossy(v).to_string()
}

impl ValSpec {
    fn to_json(&self) -> Value {
        json!({"cmp": match self.cmp { Cmp::Exact => "exact", Cmp::RTrim => "rtrim", Cmp::Pad => "pad", Cmp::Mask => "mask" }, "text": bstr(&self.text)})
    }
    fn from_json(v: &Value) -> ValSpec {
        ValSpec {
            cmp: match v["cmp"].as_str().unwrap_or("exact") {
                "rtrim" => Cmp::RTrim,
                "pad" => Cmp::Pad,
                "mask" => Cmp::Mask,
                _ => Cmp::Exact,
            },
            text: v["text"].as_str().unwrap_or("").as_bytes().to_vec(),
        }
    }
    fn matches(&self, obs: &[u8]) -> bool {
        match self.cmp {
            Cmp::Exact => obs == &self.text[..],
            Cmp::RTrim => rtrim(obs, b" ") == rtrim(&self.text, b" "),
            Cmp::Pad => rtrim(obs, b" \0") == rtrim(&self.text, b" \0"),
            Cmp::Mask => {
                let is_pad = |b: u8| b == b' ' || b == 0;
                (0..obs.len().max(self.text.len())).all(|i| match (self.text.get(i), obs.get(i)) {
                    (Some(&MASK_ANY), _) => true,
                    (Some(&MASK_PAD), None) => true,
                    (Some(&MASK_PAD), Some(o)) => is_pad(*o),
                    (Some(e), Some(o)) => e == o,
                    (Some(_), None) => false,
                    (None, Some(o)) => is_pad(*o),
                    (None, None) => true,
                })
            }
        }
    }
    /// for messages: padding shown as `~`, unpinned bytes as `?`
    fn display(&self) -> String {
        match self.cmp {
            Cmp::Mask => bstr(&self.text.iter().map(|b| match *b { MASK_PAD => b'~', MASK_ANY => b'?', x => x }).collect::<Vec<u8>>()),
            _ => bstr(&self.text),
        }
    }
}

impl Case {
    fn to_json(&self) -> Value {
        let files: Vec<Value> = (0..3).map(|i| json!({"name": NAMES[i], "bytes": self.init[i].as_ref().map(|b| bstr(b))})).collect();
        let finals: Vec<Value> = (0..3)
            .map(|i| match &self.finals[i] {
                FinalSpec::Absent => json!({"name": NAMES[i], "state": "absent"}),
                FinalSpec::Exists => json!({"name": NAMES[i], "state": "exists"}),
                FinalSpec::Skip => json!({"name": NAMES[i], "state": "skip"}),
                FinalSpec::Bytes(b, t) => json!({"name": NAMES[i], "state": "bytes", "bytes": bstr(b), "last_touch": t}),
            })
            .collect();
        json!({
            "kind": "history",
            "mode": if self.mode == PMode::Handler { "handler" } else { "last" },
            "files": files,
            "program": self.program,
            "steps": self.steps.iter().map(|s| json!({
                "k": s.k, "stmt": s.stmt, "class": s.class,
                "err": s.err.as_ref().map(|e| e.to_json()),
                "vals": s.vals.as_ref().map(|v| v.iter().map(|x| x.to_json()).collect::<Vec<_>>()),
            })).collect::<Vec<_>>(),
            "finals": finals,
        })
    }
    fn from_json(v: &Value) -> Case {
        let mut init: [Option<Vec<u8>>; 3] = [None, None, None];
        let mut finals = [FinalSpec::Absent, FinalSpec::Absent, FinalSpec::Absent];
        for i in 0..3 {
            init[i] = v["files"][i]["bytes"].as_str().map(|s| s.as_bytes().to_vec());
            let f = &v["finals"][i];
            finals[i] = match f["state"].as_str().unwrap_or("absent") {
                "exists" => FinalSpec::Exists,
                "skip" => FinalSpec::Skip,
                "bytes" => FinalSpec::Bytes(f["bytes"].as_str().unwrap_or("").as_bytes().to_vec(), f["last_touch"].as_str().unwrap_or("").to_string()),
                _ => FinalSpec::Absent,
            };
        }
        Case {
            mode: if v["mode"].as_str() == Some("last") { PMode::Last } else { PMode::Handler },
            init,
            program: v["program"].as_str().unwrap_or("").to_string(),
            steps: v["steps"]
                .as_array()
                .map(|a| {
                    a.iter()
                        .map(|s| StepSpec {
                            k: s["k"].as_u64().unwrap_or(0) as usize,
                            stmt: s["stmt"].as_str().unwrap_or("").to_string(),
                            class: s["class"].as_str().unwrap_or("").to_string(),
                            err: if s["err"].is_null() { None } else { Some(ErrSet::from_json(&s["err"])) },
                            vals: s["vals"].as_array().map(|a| a.iter().map(ValSpec::from_json).collect()),
                        })
                        .collect()
                })
                .unwrap_or_default(),
            finals,
        }
    }
}

struct RunObs {
    stdout: Vec<u8>,
    end: End,
    files: [Option<Vec<u8>>; 3],
    nodir_exists: bool,
}

fn clean_scratch() {
    for n in &NAMES[..3] {
        let _ = std::fs::remove_file(n);
    }
    let _ = std::fs::remove_dir_all(NODIR_DIR);
}

/// Creates the scratch files, runs the program, collects the final bytes, removes the files.
fn execute(init: &[Option<Vec<u8>>; 3], program: &str, stdin: &[u8]) -> Result<RunObs, FrontErr> {
    clean_scratch();
    for i in 0..3 {
        if let Some(b) = &init[i] {
            std::fs::write(NAMES[i], b).expect("scratch file");
        }
    }
    let r = impl_run::run_src(program, &RunOpts::budget(BUDGET).with_stdin(stdin));
    let files = [std::fs::read(NAMES[0]).ok(), std::fs::read(NAMES[1]).ok(), std::fs::read(NAMES[2]).ok()];
    let nodir_exists = std::path::Path::new(NODIR_DIR).exists();
    clean_scratch();
    r.map(|o| RunObs { stdout: o.stdout, end: o.end, files, nodir_exists })
}

fn split_lines(out: &[u8]) -> Vec<&[u8]> {
    let mut v = vec![];
    let mut st = 0;
    let mut i = 0;
    while i + 1 < out.len() {
        if out[i] == 13 && out[i + 1] == 10 {
            v.push(&out[st..i]);
            i += 2;
            st = i;
        } else {
            i += 1;
        }
    }
    if st < out.len() {
        v.push(&out[st..]);
    }
    v
}

/// `E <code> ` line of the handler.
fn parse_e(line: &[u8]) -> Option<i32> {
    let s = std::str::from_utf8(line).ok()?;
    let r = s.strip_prefix("E")?;
    r.trim().parse::<i32>().ok()
}

fn end_kind(end: &End) -> String {
    match end {
        End::Panic(p) => format!("panic:{}", p.sig()),
        End::Err { code: Some(c), .. } => format!("unhandled-error-{}", c),
        End::Err { name, .. } => format!("unhandled-error-{}", name.split(|c: char| !c.is_alphanumeric()).next().unwrap_or("?")),
        End::Ok => "output-garbled".to_string(),
        End::Budget => "budget".to_string(),
    }
}

fn is_print_panic(step: &StepSpec, end: &End) -> bool {
    matches!(end, End::Panic(p) if p.msg.contains("File not found") && p.loc.contains("interpreter/main.rs"))
        && (step.class == "print#:closed-handle" || step.class == "print#:input-handle")
}

struct CheckOut {
    viols: Vec<Violation>,
    inconclusive: Option<String>,
}

fn mk_viol(case: &Case, step: Option<&StepSpec>, sig: String, what: String, expected: Value, observed: Value) -> Violation {
    let mut inputs = case.to_json();
    if let (Value::Object(m), Some(s)) = (&mut inputs, step) {
        m.insert("focus".to_string(), json!({"k": s.k, "stmt": s.stmt, "class": s.class}));
    }
    let what = match step {
        Some(s) => format!("[{} program] operation {} `{}` ({}): {}", if case.mode == PMode::Handler { "handler" } else { "no-handler" }, s.k, s.stmt, s.class, what),
        None => what,
    };
    Violation::new(sig, what, inputs).exp_obs(expected, observed)
}

/// Runs a rendered history and compares stdout, ending and final bytes with the model's
/// expectations. Pure function of `case` (and of the scratch directory, which it resets).
fn check_case(case: &Case) -> CheckOut {
    let mut co = CheckOut { viols: vec![], inconclusive: None };
    let obs = match execute(&case.init, &case.program, b"") {
        Err(fe) => {
            co.viols.push(mk_viol(case, None, format!("rejected:{}", fe.class()), "generated program was rejected before running".to_string(), json!("accepted"), fe.to_json()));
            return co;
        }
        Ok(o) => o,
    };
    if obs.end == End::Budget {
        co.inconclusive = Some("instruction budget exhausted".to_string());
        return co;
    }
    let lines = split_lines(&obs.stdout);
    let out_json = |o: &RunObs| json!({"stdout": bstr(&o.stdout), "end": o.end.to_json()});
    let mut i = 0usize;
    let n = case.steps.len();
    // set when the state of the implementation may have left the model's (stop comparing)
    let mut diverged = false;
    for (si, step) in case.steps.iter().enumerate() {
        let marker = format!("K{}:", step.k);
        if lines.get(i).map(|l| *l == marker.as_bytes()) != Some(true) {
            // can only happen for the first step (later markers are checked by the step before)
            co.viols.push(mk_viol(case, Some(step), format!("{}:{}", step.class, end_kind(&obs.end)), "marker line missing".to_string(), json!(marker), out_json(&obs)));
            diverged = true;
            break;
        }
        i += 1;
        let is_last_of_last = case.mode == PMode::Last && si + 1 == n;
        if is_last_of_last {
            // the violating statement is the last one of a program without handler
            let exp = step.err.as_ref().expect("last step of a no-handler program must fail");
            let kind = match &obs.end {
                End::Err { code: Some(c), .. } if exp.contains(*c) => None,
                End::Err { code: Some(c), .. } => Some(format!("wrong-error-{}", c)),
                End::Err { name, .. } => Some(format!("wrong-error-{}", name)),
                End::Ok => Some("no-error".to_string()),
                End::Panic(p) => Some(format!("panic:{}", p.sig())),
                End::Budget => None,
            };
            if let Some(k) = kind {
                let sig = if is_print_panic(step, &obs.end) { SIG_PRINT_PANIC.to_string() } else { format!("{}:{}", step.class, k) };
                co.viols.push(mk_viol(case, Some(step), sig, format!("must end the program with {}", exp.describe()), exp.to_json(), out_json(&obs)));
                diverged = true;
            } else if i != lines.len() {
                co.viols.push(mk_viol(case, Some(step), format!("{}:output-after-error", step.class), "output after the failing last statement".to_string(), json!(""), out_json(&obs)));
                diverged = true;
            }
            break;
        }
        // optional handler line
        let mut got_err: Option<i32> = None;
        if let Some(l) = lines.get(i) {
            if let Some(c) = parse_e(l) {
                got_err = Some(c);
                i += 1;
            }
        }
        // optional value line
        let vprefix = format!("V{}[", step.k);
        let mut vline: Option<&[u8]> = None;
        if step.vals.is_some() {
            if let Some(l) = lines.get(i) {
                if l.starts_with(vprefix.as_bytes()) {
                    vline = Some(l);
                    i += 1;
                }
            }
        }
        // the next marker (or the epilogue marker) must follow
        let next_marker = format!("K{}:", step.k + 1);
        let next_ok = lines.get(i).map(|l| *l == next_marker.as_bytes()) == Some(true);
        if !next_ok {
            let sig = if is_print_panic(step, &obs.end) { SIG_PRINT_PANIC.to_string() } else { format!("{}:{}", step.class, end_kind(&obs.end)) };
            let expd = match &step.err {
                None => json!("statement succeeds; program goes on"),
                Some(e) => json!(format!("{} is raised and handled; program goes on", e.describe())),
            };
            co.viols.push(mk_viol(case, Some(step), sig, "the program did not get past this statement".to_string(), expd, out_json(&obs)));
            diverged = true;
            break;
        }
        let kind = match (&step.err, got_err) {
            (None, None) => None,
            (None, Some(c)) => Some(format!("unexpected-error-{}", c)),
            (Some(_), None) => Some("no-error".to_string()),
            (Some(e), Some(c)) => {
                if e.contains(c) {
                    None
                } else {
                    Some(format!("wrong-error-{}", c))
                }
            }
        };
        if let Some(k) = kind {
            let sig = format!("{}:{}", step.class, k);
            let benign = sig == SIG_FIELD_SEQ;
            let expd = match &step.err {
                None => json!("no error"),
                Some(e) => e.to_json(),
            };
            co.viols.push(mk_viol(case, Some(step), sig, format!("expected {}", step.err.as_ref().map(|e| e.describe()).unwrap_or("success".to_string())), expd, json!({"handler_printed": got_err, "stdout": bstr(&obs.stdout)})));
            if benign {
                continue;
            }
            diverged = true;
            break;
        }
        if let (None, Some(vals)) = (&step.err, &step.vals) {
            let exp_line = format!("{}{}]", vprefix, vals.iter().map(|v| v.display()).collect::<Vec<_>>().join("]["));
            let ok = match vline {
                None => false,
                Some(l) => {
                    let inner = &l[vprefix.len()..];
                    match inner.strip_suffix(b"]") {
                        None => false,
                        Some(inner) => {
                            let parts = split_on(inner, b"][");
                            parts.len() == vals.len() && parts.iter().zip(vals.iter()).all(|(p, v)| v.matches(p))
                        }
                    }
                }
            };
            if !ok {
                co.viols.push(mk_viol(case, Some(step), format!("{}:wrong-value", step.class), "value read differs from the model".to_string(), json!(exp_line), json!(vline.map(bstr))));
                diverged = true;
                break;
            }
        }
    }
    if diverged {
        return co;
    }
    if case.mode == PMode::Handler {
        // epilogue: K<n+1>: / CLOSE / sentinels
        let rest: Vec<String> = lines[i..].iter().map(|l| bstr(l)).collect();
        let want = vec![format!("K{}:", n + 1), SENTINEL_LINE.to_string()];
        if rest != want {
            let sig = if rest.len() == 2 && rest[0] == want[0] { "sentinels-lost".to_string() } else { format!("epilogue:{}", end_kind(&obs.end)) };
            co.viols.push(mk_viol(case, None, sig, "module-level sentinel variables after the history".to_string(), json!(want), json!(rest)));
            return co;
        }
        if obs.end != End::Ok {
            co.viols.push(mk_viol(case, None, format!("program-end:{}", end_kind(&obs.end)), "program did not end normally".to_string(), json!("ok"), obs.end.to_json()));
            return co;
        }
    }
    // the store
    if obs.nodir_exists {
        co.viols.push(mk_viol(case, None, "final-bytes:directory-created".to_string(), format!("directory {} was created", NODIR_DIR), json!("absent"), json!("present")));
    }
    for f in 0..3 {
        let (sig, expd) = match (&case.finals[f], &obs.files[f]) {
            (FinalSpec::Skip, _) => continue,
            (FinalSpec::Absent, None) => continue,
            (FinalSpec::Exists, Some(_)) => continue,
            (FinalSpec::Bytes(b, _), Some(o)) if b == o => continue,
            (FinalSpec::Absent, Some(_)) => ("final-bytes:file-should-not-exist".to_string(), json!(null)),
            (FinalSpec::Exists, None) => ("final-bytes:file-missing".to_string(), json!("exists")),
            (FinalSpec::Bytes(b, _), None) => ("final-bytes:file-missing".to_string(), json!(bstr(b))),
            (FinalSpec::Bytes(b, t), Some(_)) => (format!("final-bytes:after-{}", t), json!(bstr(b))),
        };
        co.viols.push(mk_viol(case, None, sig, format!("final bytes of {}", NAMES[f]), expd, json!(obs.files[f].as_ref().map(|b| bstr(b)))));
        break;
    }
    co
}

fn split_on<'a>(s: &'a [u8], sep: &[u8]) -> Vec<&'a [u8]> {
    let mut v = vec![];
    let mut st = 0;
    let mut i = 0;
    while i + sep.len() <= s.len() {
        if &s[i..i + sep.len()] == sep {
            v.push(&s[st..i]);
            i += sep.len();
            st = i;
        } else {
            i += 1;
        }
    }
    v.push(&s[st..]);
    v
}

// ------------------------------------------------------------------------------------------------
// history -> rendered case (through the model)
// ------------------------------------------------------------------------------------------------

#[derive(Clone, Debug)]
struct Hist {
    init: [Option<Vec<u8>>; 3],
    ops: Vec<Op>,
}

struct Built {
    case: Case,
    classes: Vec<String>,
    viols: Vec<String>,
    chains: Chains,
}

fn build_case(h: &Hist, mode: PMode) -> Result<Built, &'static str> {
    let mut m = Model::new(&h.init);
    let mut src = String::new();
    let mut steps = vec![];
    let mut classes = vec![];
    let mut viols = vec![];
    if mode == PMode::Handler {
        src.push_str("ON ERROR GOTO h\n");
        src.push_str(SENTINEL_SETUP);
        src.push('\n');
    }
    let n = h.ops.len();
    for (i, op) in h.ops.iter().enumerate() {
        let k = i + 1;
        let out = m.apply(op)?;
        let (stmt, vstmt) = render_op(op, k, out.nfields, &out.show);
        src.push_str(&format!("PRINT \"K{}:\"\n{}\n", k, stmt));
        let mut vals = None;
        let last_of_last = mode == PMode::Last && k == n;
        if out.err.is_none() && !last_of_last {
            if let Some(v) = vstmt {
                src.push_str(&v);
                src.push('\n');
                vals = Some(out.vals.clone());
            }
        }
        if mode == PMode::Last && out.err.is_some() != (k == n) {
            return Err("no-handler program: exactly the last statement must fail");
        }
        classes.push(out.class.clone());
        if let Some(v) = &out.viol {
            viols.push(v.clone());
        }
        steps.push(StepSpec { k, stmt, class: out.class, err: out.err, vals });
    }
    if mode == PMode::Handler {
        src.push_str(&format!("PRINT \"K{}:\"\nCLOSE\n{}\nEND\nh:\nPRINT \"E\"; ERR\nRESUME NEXT\n", n + 1, SENTINEL_PRINT));
    }
    let mut finals = [FinalSpec::Absent, FinalSpec::Absent, FinalSpec::Absent];
    for f in 0..3 {
        finals[f] = match &m.files[f] {
            None => FinalSpec::Absent,
            Some(fs) => {
                let open_for_write = m.open_on(f).iter().any(|hh| m.hd[*hh].as_ref().unwrap().mode != Mode::Input);
                if mode == PMode::Last && open_for_write {
                    FinalSpec::Skip
                } else {
                    match &fs.content {
                        Content::Unknown => FinalSpec::Exists,
                        Content::Known(b) => FinalSpec::Bytes(b.clone(), fs.last_touch.to_string()),
                    }
                }
            }
        };
    }
    Ok(Built { case: Case { mode, init: h.init.clone(), program: src, steps, finals }, classes, viols, chains: m.chains })
}

// ------------------------------------------------------------------------------------------------
// generator 1: histories, steered by the model
// ------------------------------------------------------------------------------------------------

const WORDS: [&str; 20] = ["a", "xy", "hello", "Q", "x y", "7", "12", "-3", "B2", "a b c", "0", ".", "W w", "405", "\u{e9}t\u{e9}", "na\u{ef}f \u{fc}", "16777217", "123456789", "-2147483647", "40000"];

/// One text field: a word, possibly empty, possibly with blanks at its edges.
fn gen_field(t: &mut Tape) -> String {
    let base = match t.choose(8) {
        7 => String::new(),
        _ => WORDS[t.choose(WORDS.len())].to_string(),
    };
    match t.choose(8) {
        5 => format!(" {}", base),
        6 => format!("{} ", base),
        7 => format!("  {}  ", base),
        _ => base,
    }
}

fn gen_line(t: &mut Tape) -> String {
    let n = match t.choose(6) {
        0 | 1 | 2 => 1,
        3 | 4 => 2,
        _ => 3,
    };
    (0..n).map(|_| gen_field(t)).collect::<Vec<_>>().join(",")
}

/// A text payload: 0-4 lines (some empty), CR LF between them, the last line with or without CR LF.
fn gen_payload(t: &mut Tape) -> Vec<u8> {
    let n = t.choose(5);
    let mut v = vec![];
    if t.chance(1, 8) {
        // a long first line whose CR LF falls on / next to a power-of-two offset (where a reader's buffer may end)
        let len = *t.pick(&[511usize, 1023, 4095, 8191, 255]) + t.choose(3) - 1;
        v.extend(std::iter::repeat(b'x').take(len - 1));
        v.push(b'y');
        v.extend_from_slice(b"\r\n");
    }
    for i in 0..n {
        let l = if t.chance(1, 8) { String::new() } else { gen_line(t) };
        v.extend_from_slice(l.as_bytes());
        if i + 1 < n || !t.chance(1, 3) {
            v.extend_from_slice(b"\r\n");
        }
    }
    v
}

fn payload_class(p: &[u8]) -> &'static str {
    if p.is_empty() {
        "payload:empty-file"
    } else if p.ends_with(b"\r\n") {
        "payload:last-line-with-crlf"
    } else {
        "payload:last-line-without-crlf"
    }
}

fn gen_print(t: &mut Tape, h: usize, col: Option<usize>) -> Op {
    let n = 1 + t.choose(3);
    let mut items = vec![];
    let mut c = col;
    for i in 0..n {
        let it = if t.chance(1, 3) { Item::N(t.range(-99, 999)) } else { Item::S(if t.chance(1, 4) { gen_line(t) } else { gen_field(t) }) };
        let len = match &it {
            Item::S(s) => s.len(),
            Item::N(n) => fmt_num(*n).len(),
        };
        c = c.map(|x| x + len);
        if matches!(&it, Item::S(s) if !s.is_ascii()) {
            // the statement says nothing about the width of a character above 127: no comma after it on this line
            c = None;
        }
        let room = c.map(|x| x < MAX_COL).unwrap_or(false);
        let sep = if i + 1 < n {
            if room && t.chance(1, 4) { Some(Sep::Comma) } else { Some(Sep::Semi) }
        } else {
            match t.choose(10) {
                8 if room => Some(Sep::Semi),
                9 if room => Some(Sep::Comma),
                _ => None,
            }
        };
        if sep == Some(Sep::Comma) {
            c = c.map(|x| x + (ZONE - x % ZONE));
        }
        if sep.is_none() {
            c = Some(0);
        }
        items.push((it, sep));
    }
    Op::Print { h, items }
}

fn num_type(t: &mut Tape) -> VarT {
    *t.pick(&[VarT::Int, VarT::Long, VarT::Sng, VarT::Dbl])
}

/// INPUT # with `n` variables whose types fit what the model will read (numeric only for plain
/// small integers).
fn gen_input(t: &mut Tape, m: &Model, h: usize, n: usize) -> Op {
    let mut vars = vec![];
    let mut pos = m.hd[h].as_ref().map(|x| x.pos).unwrap_or(0);
    let bytes: Vec<u8> = m.hd[h]
        .as_ref()
        .and_then(|x| m.files[x.name].as_ref())
        .and_then(|f| if let Content::Known(b) = &f.content { Some(b.clone()) } else { None })
        .unwrap_or_default();
    for _ in 0..n {
        let numeric = match read_field(&bytes, &mut pos) {
            FieldRead::Val(v) => small_int(&v),
            _ => None,
        };
        let want_num = t.chance(2, 3);
        vars.push(match numeric {
            Some(v) if want_num => num_type_for(t, v),
            _ => VarT::Str,
        });
    }
    Op::Input { h, vars }
}

/// A record number: mostly 1..5 (so that records are overwritten and re-read), now and then beyond the INTEGER range
/// (record numbers are LONGs).
fn gen_recno(t: &mut Tape) -> i64 {
    match t.choose(8) {
        7 => *t.pick(&[32768i64, 40000, 32767, 70001]),
        _ => 1 + t.choose(5) as i64,
    }
}

fn gen_widths(t: &mut Tape, reclen: usize) -> Vec<usize> {
    let n = 1 + t.choose(3);
    let mut left = reclen;
    let mut w = vec![];
    for i in 0..n {
        if left == 0 {
            break;
        }
        let x = if i + 1 == n && !t.chance(1, 4) { left } else { 1 + t.choose(left.min(6)) };
        w.push(x);
        left -= x;
    }
    w
}

/// Widths of an overlay list: a partition of its own, preferably with boundaries that differ from
/// the lists declared so far (so that its variables straddle theirs).
fn gen_overlay_widths(t: &mut Tape, reclen: usize, lists: &[Vec<usize>]) -> Vec<usize> {
    let mut w = gen_widths(t, reclen);
    if lists.contains(&w) {
        // same layout under other names is still an overlay; most of the time make it differ
        if t.chance(3, 4) {
            let whole: usize = w.iter().sum();
            w = if w.len() > 1 { vec![whole] } else if whole >= 2 { vec![whole / 2, whole - whole / 2] } else { w };
        }
    }
    w
}

fn gen_lset_val(t: &mut Tape, width: usize) -> String {
    const ALPHA: &[u8] = b"abXY01 z.";
    let len = if t.chance(1, 4) { t.choose(width + 1) } else { width };
    let mut s: Vec<u8> = (0..len).map(|_| ALPHA[t.choose(ALPHA.len())]).collect();
    // no trailing blank: padding is compared leniently
    if let Some(l) = s.last_mut() {
        if *l == b' ' {
            *l = b'k';
        }
    }
    String::from_utf8(s).unwrap()
}

/// Names a handle may be opened on (not open elsewhere; INPUT may share with other INPUT handles).
fn free_names(m: &Model, mode: Mode) -> Vec<usize> {
    (0..3)
        .filter(|n| {
            let o = m.open_on(*n);
            o.is_empty() || (mode == Mode::Input && o.iter().all(|h| m.hd[*h].as_ref().unwrap().mode == Mode::Input))
        })
        .collect()
}

fn closed_names(m: &Model) -> Vec<usize> {
    (0..3).filter(|n| m.open_on(*n).is_empty()).collect()
}

/// A valid OPEN on the closed handle `h`.
fn gen_open(t: &mut Tape, m: &Model, h: usize) -> Option<Op> {
    // (name, mode) candidates, the most chain-building ones first
    let mut cands: Vec<(usize, Mode)> = vec![];
    for n in free_names(m, Mode::Input) {
        if let Some(f) = &m.files[n] {
            if f.content != Content::Unknown {
                cands.push((n, Mode::Input));
                cands.push((n, Mode::Input));
                if f.printed {
                    cands.push((n, Mode::Input));
                    cands.push((n, Mode::Input));
                    cands.push((n, Mode::Input));
                }
            }
        }
    }
    for n in closed_names(m) {
        match &m.files[n] {
            Some(f) if f.content != Content::Unknown => {
                cands.push((n, Mode::Append));
                if f.printed_by_output {
                    for _ in 0..4 {
                        cands.push((n, Mode::Append));
                    }
                }
                cands.push((n, Mode::Output));
            }
            Some(_) => {
                cands.push((n, Mode::Output));
                cands.push((n, Mode::Random));
            }
            None => {
                cands.push((n, Mode::Output));
                cands.push((n, Mode::Output));
                cands.push((n, Mode::Append));
                cands.push((n, Mode::Random));
            }
        }
    }
    if cands.is_empty() {
        return None;
    }
    let (name, mode) = cands[t.choose(cands.len())];
    let len = if mode == Mode::Random { 4 + t.choose(13) } else { 0 };
    Some(Op::Open { h, name, mode, len })
}

/// The natural next operation on handle `h`.
fn gen_progress(t: &mut Tape, m: &Model, h: usize) -> Option<Op> {
    match &m.hd[h] {
        None => gen_open(t, m, h),
        Some(hd) => match hd.mode {
            Mode::Input => {
                let len = match &m.files[hd.name].as_ref().unwrap().content {
                    Content::Known(b) => b.len(),
                    _ => 0,
                };
                if hd.pos >= len {
                    return Some(if t.chance(1, 2) { Op::Eof { h } } else { Op::Close(vec![h]) });
                }
                Some(match t.choose(8) {
                    0 | 1 | 2 => Op::LineInput { h },
                    3 | 4 => gen_input(t, m, h, 1),
                    5 => gen_input(t, m, h, 2),
                    6 => gen_input(t, m, h, 3),
                    _ => Op::Eof { h },
                })
            }
            Mode::Output | Mode::Append => Some(if t.chance(1, 6) { Op::Close(vec![h]) } else { gen_print(t, h, hd.col) }),
            Mode::Random => {
                if hd.lists.is_empty() {
                    return Some(Op::Field { h, widths: gen_widths(t, hd.reclen), list: 0 });
                }
                let nl = hd.lists.len();
                // one more FIELD statement on the open file: an overlay of the record buffer with
                // variables and widths of its own, or an earlier FIELD statement once more
                if hd.field_stmts < MAX_LISTS + 1 && t.chance(1, 12) {
                    if nl < MAX_LISTS && !t.chance(1, 4) {
                        return Some(Op::Field { h, widths: gen_overlay_widths(t, hd.reclen, &hd.lists), list: nl });
                    }
                    let j = t.choose(nl);
                    return Some(Op::Field { h, widths: hd.lists[j].clone(), list: j });
                }
                // the list to compose the next record through: mostly the one addressed last
                let cur = hd.cur.unwrap_or(0);
                let tl = if nl > 1 && t.chance(1, 4) { t.choose(nl) } else { cur };
                let w = &hd.lists[tl];
                let cur_val = |i: usize| -> Vec<Cell> { hd.var_cells(tl, i).to_vec() };
                let unset: Vec<usize> = (0..w.len()).filter(|i| !hd.fresh[tl][*i]).collect();
                let recs: Vec<i64> = hd.recs.keys().cloned().collect();
                if !unset.is_empty() && !recs.is_empty() && t.chance(1, 2) {
                    // a GET brings every variable of every list up to date
                    return Some(Op::Get { h, rec: recs[t.choose(recs.len())] });
                }
                if let Some(i) = unset.first() {
                    return Some(Op::Lset { h, list: tl, idx: *i, val: gen_lset_val(t, w[*i]) });
                }
                // the buffer still holds what some record holds: change a field first, so that
                // records differ from each other
                let total = hd.total(tl);
                let stale = hd.recs.values().any(|(v, _)| v[..total] == hd.rbuf[..total]);
                if tl != cur || (stale && !t.chance(1, 4)) {
                    let i = t.choose(w.len());
                    let mut val = gen_lset_val(t, w[i]);
                    if lset_cells(val.as_bytes(), w[i]) == cur_val(i) && !val.is_empty() {
                        // force a change
                        let first = if val.as_bytes()[0] == b'q' { "r" } else { "q" };
                        val.replace_range(0..1, first);
                    }
                    return Some(Op::Lset { h, list: tl, idx: i, val });
                }
                Some(match t.choose(8) {
                    0 => {
                        let i = t.choose(w.len());
                        Op::Lset { h, list: tl, idx: i, val: gen_lset_val(t, w[i]) }
                    }
                    1 | 2 | 3 => Op::Put { h, rec: gen_recno(t) },
                    4 | 5 | 6 if !recs.is_empty() => Op::Get { h, rec: recs[t.choose(recs.len())] },
                    7 if recs.len() >= 2 => Op::Close(vec![h]),
                    _ => Op::Put { h, rec: gen_recno(t) },
                })
            }
        },
    }
}

/// A protocol violation that applies in the current state.
fn gen_violation(t: &mut Tape, m: &Model) -> Option<Op> {
    let open: Vec<usize> = (0..3).filter(|h| m.hd[*h].is_some()).collect();
    let closed: Vec<usize> = (0..3).filter(|h| m.hd[*h].is_none()).collect();
    let of_mode = |f: &dyn Fn(Mode) -> bool| -> Vec<usize> { open.iter().cloned().filter(|h| f(m.hd[*h].as_ref().unwrap().mode)).collect() };
    let inputs = of_mode(&|x| x == Mode::Input);
    let outputs = of_mode(&|x| x == Mode::Output || x == Mode::Append);
    let seqs = of_mode(&|x| x != Mode::Random);
    let missing: Vec<usize> = (0..3).filter(|n| m.files[*n].is_none()).collect();
    let at_end: Vec<usize> = inputs
        .iter()
        .cloned()
        .filter(|h| {
            let hd = m.hd[*h].as_ref().unwrap();
            matches!(&m.files[hd.name].as_ref().unwrap().content, Content::Known(b) if hd.pos >= b.len())
        })
        .collect();
    let mut tries = 0;
    loop {
        tries += 1;
        if tries > 6 {
            return None;
        }
        let kind = t.choose(12);
        let op = match kind {
            // OPEN on a handle in use
            0 | 1 if !open.is_empty() => {
                let h = open[t.choose(open.len())];
                let mode = *t.pick(&[Mode::Output, Mode::Input, Mode::Append, Mode::Random]);
                let names: Vec<usize> = closed_names(m).into_iter().filter(|n| mode != Mode::Input || matches!(&m.files[*n], Some(f) if f.content != Content::Unknown)).collect();
                if names.is_empty() {
                    continue;
                }
                Op::Open { h, name: names[t.choose(names.len())], mode, len: 8 }
            }
            // missing input file
            2 | 3 if !closed.is_empty() && !missing.is_empty() => Op::Open { h: closed[t.choose(closed.len())], name: missing[t.choose(missing.len())], mode: Mode::Input, len: 0 },
            // a name that cannot be created / does not exist
            4 if !closed.is_empty() => Op::Open { h: closed[t.choose(closed.len())], name: NODIR, mode: *t.pick(&[Mode::Output, Mode::Input, Mode::Append, Mode::Random]), len: 8 },
            // reading past the end
            5 | 6 if !at_end.is_empty() => {
                let h = at_end[t.choose(at_end.len())];
                if t.chance(1, 2) { Op::LineInput { h } } else { Op::Input { h, vars: vec![VarT::Str] } }
            }
            // an INPUT # that runs over the end after reading some fields
            6 if !inputs.is_empty() => {
                let h = inputs[t.choose(inputs.len())];
                gen_input(t, m, h, 3)
            }
            // use of a closed handle
            7 | 8 if !closed.is_empty() => {
                let h = closed[t.choose(closed.len())];
                match t.choose(6) {
                    0 => Op::Input { h, vars: vec![VarT::Str] },
                    1 => Op::LineInput { h },
                    2 => Op::Eof { h },
                    3 => Op::Get { h, rec: 1 },
                    4 => Op::Put { h, rec: 1 },
                    _ => Op::Field { h, widths: vec![4], list: 0 },
                }
            }
            // reading from an output handle
            9 if !outputs.is_empty() => {
                let h = outputs[t.choose(outputs.len())];
                match t.choose(3) {
                    0 => Op::Input { h, vars: vec![VarT::Str] },
                    1 => Op::LineInput { h },
                    _ => Op::Eof { h },
                }
            }
            // record operations on a sequential handle
            10 if !seqs.is_empty() => {
                let h = seqs[t.choose(seqs.len())];
                match t.choose(5) {
                    0 | 1 => Op::Get { h, rec: 1 },
                    2 | 3 => Op::Put { h, rec: 1 },
                    _ => Op::Field { h, widths: vec![4], list: 0 },
                }
            }
            // KILL / NAME of what is not there
            11 => match t.choose(4) {
                0 if !missing.is_empty() => Op::Kill { name: missing[t.choose(missing.len())] },
                1 if !missing.is_empty() => {
                    let from = missing[t.choose(missing.len())];
                    let tos: Vec<usize> = missing.iter().cloned().filter(|x| *x != from).collect();
                    if tos.is_empty() {
                        continue;
                    }
                    Op::Name { from, to: tos[t.choose(tos.len())] }
                }
                2 => {
                    let ex: Vec<usize> = closed_names(m).into_iter().filter(|n| m.files[*n].is_some()).collect();
                    if ex.is_empty() {
                        continue;
                    }
                    Op::Name { from: ex[t.choose(ex.len())], to: NODIR }
                }
                3 => Op::Kill { name: NODIR },
                _ => continue,
            },
            _ => continue,
        };
        return Some(op);
    }
}

fn gen_history(t: &mut Tape, sh: &mut Shard) -> Hist {
    let mut init: [Option<Vec<u8>>; 3] = [None, None, None];
    for f in init.iter_mut() {
        if t.chance(1, 2) {
            *f = Some(gen_payload(t));
        }
    }
    let mut m = Model::new(&init);
    let n = 3 + t.choose(23);
    let bad_print_last = t.chance(1, 24);
    // 0-2 general, 3 dwells on RANDOM files, 4 closes written files early (reopen chains)
    let style = t.choose(5);
    let mut ops: Vec<Op> = vec![];
    let mut last_h = 0usize;
    let mut guard = 0;
    while ops.len() < n && guard < 80 {
        guard += 1;
        let intent = t.choose(16);
        let h = match t.choose(6) {
            0 => 0,
            1 => 1,
            2 => 2,
            _ => last_h,
        };
        let op = match intent {
            12 => {
                // CLOSE in its forms
                let open: Vec<usize> = (0..3).filter(|x| m.hd[*x].is_some()).collect();
                match t.choose(4) {
                    0 if !open.is_empty() => Some(Op::Close(vec![open[t.choose(open.len())]])),
                    1 => Some(Op::Close(vec![])),
                    2 => Some(Op::Close(vec![h, (h + 1) % 3])),
                    _ => Some(Op::Close(vec![h])),
                }
            }
            13 => {
                // KILL / NAME of a closed, existing file
                let ex: Vec<usize> = closed_names(&m).into_iter().filter(|x| m.files[*x].is_some()).collect();
                let free: Vec<usize> = closed_names(&m).into_iter().filter(|x| m.files[*x].is_none()).collect();
                if ex.is_empty() {
                    gen_progress(t, &m, h)
                } else {
                    let from = ex[t.choose(ex.len())];
                    if !free.is_empty() && t.chance(2, 3) { Some(Op::Name { from, to: free[t.choose(free.len())] }) } else { Some(Op::Kill { name: from }) }
                }
            }
            14 | 15 => gen_violation(t, &m).or_else(|| gen_progress(t, &m, h)),
            _ if style == 3 && intent >= 3 => {
                let rnd: Vec<usize> = (0..3).filter(|x| m.hd[*x].as_ref().map(|y| y.mode == Mode::Random).unwrap_or(false)).collect();
                let closed: Vec<usize> = (0..3).filter(|x| m.hd[*x].is_none()).collect();
                let names = closed_names(&m);
                if !rnd.is_empty() {
                    let hh = rnd[t.choose(rnd.len())];
                    gen_progress(t, &m, hh)
                } else if !closed.is_empty() && !names.is_empty() {
                    Some(Op::Open { h: closed[t.choose(closed.len())], name: names[t.choose(names.len())], mode: Mode::Random, len: 4 + t.choose(13) })
                } else {
                    Some(Op::Close(vec![h]))
                }
            }
            _ if style == 4 && intent >= 8 => {
                let written: Vec<usize> = (0..3).filter(|x| m.hd[*x].as_ref().map(|y| y.mode != Mode::Input && y.mode != Mode::Random && m.files[y.name].as_ref().map(|f| f.printed).unwrap_or(false)).unwrap_or(false)).collect();
                if !written.is_empty() { Some(Op::Close(vec![written[t.choose(written.len())]])) } else { gen_progress(t, &m, h) }
            }
            _ => gen_progress(t, &m, h),
        };
        let Some(op) = op else { continue };
        let mut trial = m.clone();
        match trial.apply(&op) {
            Ok(_) => {
                if let Op::Open { h, .. } | Op::Print { h, .. } | Op::Input { h, .. } | Op::LineInput { h } | Op::Put { h, .. } | Op::Get { h, .. } | Op::Field { h, .. } | Op::Lset { h, .. } = &op {
                    last_h = *h;
                }
                m = trial;
                ops.push(op);
            }
            Err(reason) => sh.discard(&format!("operation skipped, statement silent: {}", reason)),
        }
    }
    if bad_print_last {
        // PRINT # on a closed handle or on an input handle: only as the very last operation
        let cands: Vec<usize> = (0..3).filter(|h| m.hd[*h].as_ref().map(|x| x.mode == Mode::Input).unwrap_or(true)).collect();
        if !cands.is_empty() {
            let h = cands[t.choose(cands.len())];
            ops.push(Op::Print { h, items: vec![(Item::S("x".to_string()), None)] });
        }
    }
    Hist { init, ops }
}

fn record_classes(sh: &mut Shard, b: &Built, h: &Hist) {
    for c in &b.classes {
        sh.class(&format!("op:{}", c));
    }
    for v in &b.viols {
        sh.class(&format!("violation:{}", v));
    }
    for f in h.init.iter().flatten() {
        sh.class(payload_class(f));
    }
    let c = &b.chains;
    let mut any = false;
    for (flag, name) in [
        (c.write_reopen_read, "chain:write-close-reopen-read"),
        (c.append_after_output, "chain:append-after-output"),
        (c.put_get_interleaved, "chain:put-get-with-other-record-between"),
        (c.get_through_overlay, "chain:get-through-several-field-lists"),
        (c.violation_then_success, "chain:violation-then-successful-operations"),
    ] {
        if flag {
            sh.class(name);
            any = true;
        }
    }
    if c.two_readers_same_file {
        sh.class("chain:(two-input-handles-on-one-file)");
    }
    sh.class(&format!("history:violations={}", c.violations.min(4)));
    sh.class(&format!("history:ops={}", match h.ops.len() { 0..=5 => "3-5", 6..=10 => "6-10", 11..=17 => "11-17", _ => "18-26" }));
    if any {
        sh.nontrivial(hash64(&(&b.case.program, &h.init)));
    }
}

fn history_case(sh: &mut Shard, tape: &[u32]) -> Result<(), Violation> {
    let mut t = Tape::new(tape);
    let hist = gen_history(&mut t, sh);
    let also_last = t.chance(1, 3);
    sh.eval();
    let built = match build_case(&hist, PMode::Handler) {
        Ok(b) => b,
        Err(r) => {
            sh.discard(&format!("history dropped: {}", r));
            return Ok(());
        }
    };
    record_classes(sh, &built, &hist);
    sh.sample_sparse(97, || json!({"program": built.case.program, "files": built.case.to_json()["files"], "finals": built.case.to_json()["finals"]}));
    sh.journal(&built.case.program);
    let co = check_case(&built.case);
    if let Some(r) = co.inconclusive {
        sh.discard(&r);
    }
    for v in co.viols {
        sh.triage(v)?;
    }
    // the first violation of the history once more, without handler, as the last statement
    let first_bad = hist.ops.iter().enumerate().position(|(i, _)| built.case.steps[i].err.is_some());
    if let Some(i) = first_bad {
        let is_print = matches!(hist.ops[i], Op::Print { .. });
        if also_last || is_print {
            let sub = Hist { init: hist.init.clone(), ops: hist.ops[..=i].to_vec() };
            if let Ok(b) = build_case(&sub, PMode::Last) {
                sh.class(&format!("no-handler:{}", b.case.steps[i].class));
                sh.journal(&b.case.program);
                let co = check_case(&b.case);
                if let Some(r) = co.inconclusive {
                    sh.discard(&r);
                }
                for v in co.viols {
                    sh.triage(v)?;
                }
            }
        }
    }
    Ok(())
}

// ------------------------------------------------------------------------------------------------
// generator 2: the same byte stream through a file and through standard input
// ------------------------------------------------------------------------------------------------

#[derive(Clone, Debug)]
enum Rd {
    Input(Vec<VarT>),
    Line,
}

#[derive(Clone, Debug)]
struct Duo {
    stream: Vec<u8>,
    file_prog: String,
    console_prog: String,
    /// (k, statement kind, file form of the statement)
    reads: Vec<(usize, String, String)>,
}

impl Duo {
    fn to_json(&self) -> Value {
        json!({
            "kind": "console-vs-file",
            "stream": bstr(&self.stream),
            "file_program": self.file_prog,
            "console_program": self.console_prog,
            "reads": self.reads.iter().map(|(k, kind, s)| json!({"k": k, "kind": kind, "stmt": s})).collect::<Vec<_>>(),
        })
    }
    fn from_json(v: &Value) -> Duo {
        Duo {
            stream: v["stream"].as_str().unwrap_or("").as_bytes().to_vec(),
            file_prog: v["file_program"].as_str().unwrap_or("").to_string(),
            console_prog: v["console_program"].as_str().unwrap_or("").to_string(),
            reads: v["reads"].as_array().map(|a| a.iter().map(|r| (r["k"].as_u64().unwrap_or(0) as usize, r["kind"].as_str().unwrap_or("").to_string(), r["stmt"].as_str().unwrap_or("").to_string())).collect()).unwrap_or_default(),
        }
    }
}

fn render_duo(stream: &[u8], reads: &[Rd]) -> Duo {
    let mut fp = format!("ON ERROR GOTO h\nOPEN \"{}\" FOR INPUT AS #1\n", NAMES[0]);
    let mut cp = String::from("ON ERROR GOTO h\n");
    let mut specs = vec![];
    for (i, r) in reads.iter().enumerate() {
        let k = i + 1;
        let (fstmt, cstmt, show, kind) = match r {
            Rd::Input(vars) => {
                let names: Vec<String> = vars.iter().enumerate().map(|(j, v)| format!("v{}{}{}", k, (b'a' + j as u8) as char, v.suffix())).collect();
                let show = names.iter().map(|n| format!("{}; \"]", n)).collect::<Vec<_>>().join("[\"; ");
                (format!("INPUT #1, {}", names.join(", ")), format!("INPUT {}", names.join(", ")), format!("PRINT \"V{}[\"; {}\"", k, show), if vars.len() == 1 { "input-one-variable" } else { "input-several-variables" })
            }
            Rd::Line => (format!("LINE INPUT #1, v{}a$", k), format!("LINE INPUT v{}a$", k), format!("PRINT \"V{}[\"; v{}a$; \"]\"", k, k), "line-input"),
        };
        fp.push_str(&format!("PRINT \"K{}:\"\n{}\n{}\n", k, fstmt, show));
        cp.push_str(&format!("PRINT \"K{}:\"\n{}\n{}\n", k, cstmt, show));
        specs.push((k, kind.to_string(), fstmt));
    }
    let tail = format!("PRINT \"K{}:\"\nEND\nh:\nPRINT \"E\"; ERR\nRESUME NEXT\n", reads.len() + 1);
    fp.push_str(&tail);
    cp.push_str(&tail);
    Duo { stream: stream.to_vec(), file_prog: fp, console_prog: cp, reads: specs }
}

/// Lines of a run grouped by marker: k -> lines between `K<k>:` and the next marker.
fn group_by_marker(out: &[u8], strip_prompt: bool) -> BTreeMap<usize, Vec<Vec<u8>>> {
    let mut m: BTreeMap<usize, Vec<Vec<u8>>> = BTreeMap::new();
    let mut cur: Option<usize> = None;
    for l in split_lines(out) {
        let mut l = l;
        if strip_prompt {
            while l.starts_with(b"? ") {
                l = &l[2..];
            }
        }
        let mk = std::str::from_utf8(l).ok().and_then(|s| s.strip_prefix('K')).and_then(|s| s.strip_suffix(':')).and_then(|s| s.parse::<usize>().ok());
        match mk {
            Some(k) => {
                cur = Some(k);
                m.entry(k).or_default();
            }
            None => {
                if let Some(k) = cur {
                    m.entry(k).or_default().push(l.to_vec());
                }
            }
        }
    }
    m
}

/// Returns (violation if any, number of reads compared).
fn check_duo(d: &Duo) -> (Option<Violation>, usize, Option<String>) {
    let mut init: [Option<Vec<u8>>; 3] = [None, None, None];
    init[0] = Some(d.stream.clone());
    let fr = execute(&init, &d.file_prog, b"");
    let cr = execute(&[None, None, None], &d.console_prog, &d.stream);
    let (fo, co) = match (fr, cr) {
        (Ok(f), Ok(c)) => (f, c),
        (Err(e), _) | (_, Err(e)) => {
            return (Some(Violation::new(format!("rejected:{}", e.class()), "generated program was rejected before running", d.to_json()).exp_obs(json!("accepted"), e.to_json())), 0, None);
        }
    };
    if fo.end == End::Budget || co.end == End::Budget {
        return (None, 0, Some("instruction budget exhausted".to_string()));
    }
    let fg = group_by_marker(&fo.stdout, false);
    let cg = group_by_marker(&co.stdout, true);
    let mut compared = 0;
    for (k, kind, stmt) in &d.reads {
        let Some(fl) = fg.get(k) else { break };
        // the file form failed (past the end ...): what the console does then is not pinned
        if fl.iter().any(|l| parse_e(l).is_some()) || !fg.contains_key(&(k + 1)) {
            return (None, compared, Some("file form ended in an error: rest not compared".to_string()));
        }
        let cl = cg.get(k).cloned().unwrap_or_default();
        let complete = cg.contains_key(&(k + 1));
        if *fl != cl || !complete {
            let fv = fl.first().map(|l| bstr(l)).unwrap_or_default();
            let cv = cl.first().map(|l| bstr(l)).unwrap_or_default();
            let sub = if !complete {
                end_kind(&co.end)
            } else if let Some(c) = cl.iter().find_map(|l| parse_e(l)) {
                format!("console-error-{}", c)
            } else {
                "value-differs".to_string()
            };
            // the known defect: console LINE INPUT reads one INPUT field (up to the first comma, blanks trimmed)
            let pre = format!("V{}[", k);
            let inner = |s: &str| s.strip_prefix(pre.as_str()).and_then(|r| r.strip_suffix(']')).map(|r| r.to_string());
            let known = kind == "line-input"
                && complete
                && fl.len() == 1
                && cl.len() == 1
                && match (inner(&fv), inner(&cv)) {
                    (Some(f), Some(c)) => f.split(',').next().map(|p| p.trim_matches(' ') == c).unwrap_or(false),
                    _ => false,
                };
            let sig = if known { SIG_CONSOLE_LINE_INPUT.to_string() } else { format!("console-vs-file:{}:{}", kind, sub) };
            let v = Violation::new(sig, format!("read {} `{}`: the console form reads something else than the file form from the same bytes", k, stmt), {
                let mut j = d.to_json();
                if let Value::Object(m) = &mut j {
                    m.insert("focus".to_string(), json!({"k": k, "stmt": stmt}));
                }
                j
            })
            .exp_obs(json!({"file_form": fl.iter().map(|l| bstr(l)).collect::<Vec<_>>()}), json!({"console_form": cl.iter().map(|l| bstr(l)).collect::<Vec<_>>(), "end": co.end.to_json()}));
            return (Some(v), compared, None);
        }
        compared += 1;
    }
    (None, compared, None)
}

fn duo_case(sh: &mut Shard, tape: &[u32]) -> Result<(), Violation> {
    let mut t = Tape::new(tape);
    // mode A keeps LINE INPUT away from lines with a comma or blanks at the edges (search behind the known defect)
    let allow_comma_lines = t.chance(1, 4);
    let mut stream = gen_payload(&mut t);
    if stream.is_empty() {
        stream = b"a,b\r\n".to_vec();
    }
    let mut pos = 0usize;
    let mut reads: Vec<Rd> = vec![];
    let max = 1 + t.choose(8);
    while reads.len() < max && pos < stream.len() {
        // would reading the rest of the line as ONE INPUT field give something else than the line?
        let rest_line_has_comma = {
            let mut p = pos;
            while p < stream.len() && !is_eol(stream[p]) {
                p += 1;
            }
            let rest = &stream[pos..p];
            rest.contains(&b',') || rest.first() == Some(&b' ') || rest.last() == Some(&b' ')
        };
        let want_line = t.chance(1, 3);
        if want_line && (allow_comma_lines || !rest_line_has_comma) {
            read_line(&stream, &mut pos);
            reads.push(Rd::Line);
            sh.class(if rest_line_has_comma { "console:line-input:line-with-comma-or-edge-blanks" } else { "console:line-input:plain-line" });
            continue;
        }
        let n = 1 + t.choose(3);
        let mut vars = vec![];
        let mut p = pos;
        let mut ok = true;
        for _ in 0..n {
            match read_field(&stream, &mut p) {
                FieldRead::Val(v) => {
                    let numeric = small_int(&v).filter(|_| t.chance(2, 3));
                    vars.push(match numeric {
                        Some(n) => num_type_for(&mut t, n),
                        None => VarT::Str,
                    });
                }
                _ => {
                    ok = false;
                    break;
                }
            }
        }
        if vars.is_empty() {
            break;
        }
        pos = p;
        sh.class(if vars.len() == 1 { "console:input:one-variable" } else { "console:input:several-variables" });
        if vars.iter().any(|v| *v != VarT::Str) {
            sh.class("console:input:numeric-variable");
        }
        reads.push(Rd::Input(vars));
        if !ok {
            break;
        }
    }
    sh.eval();
    if reads.is_empty() {
        sh.discard("console-vs-file: nothing to read");
        return Ok(());
    }
    let d = render_duo(&stream, &reads);
    sh.class(&format!("console:{}", payload_class(&stream)));
    if reads.len() >= 2 {
        sh.nontrivial(hash64(&(&d.console_prog, &d.stream)));
    }
    sh.sample_sparse(211, || d.to_json());
    sh.journal(&format!("{}\n---stdin---\n{}", d.console_prog, bstr(&d.stream)));
    let (v, compared, note) = check_duo(&d);
    sh.class_n("console:reads-compared", compared as u64);
    if let Some(n) = note {
        sh.discard(&n);
    }
    match v {
        Some(v) => sh.triage(v),
        None => Ok(()),
    }
}

// ------------------------------------------------------------------------------------------------

impl Prop for C18 {
    fn id(&self) -> &'static str {
        "C18"
    }
    fn rule(&self) -> &'static str {
        "Generator 1: one case = one HISTORY of 3-26 file operations over handles #1-#3, three scratch file names (each initially absent or holding a 0-4 line text payload: fields with commas, interior/leading/trailing blanks, empty fields and lines, numbers, last line with or without CR LF) and one name in a directory that does not exist: OPEN FOR INPUT/OUTPUT/APPEND/RANDOM LEN=n, PRINT #n (1-3 string / small integer items, `;` and `,`, trailing separator), INPUT #n (1-3 variables, $ % & ! #), LINE INPUT #n, EOF(n), CLOSE #n / CLOSE #n,#m / CLOSE, KILL, NAME, FIELD (up to four FIELD statements per open RANDOM file: the first list, up to two OVERLAY lists with variables and widths of their own, and earlier FIELD statements repeated verbatim), LSET (through a variable of any list), PUT, GET (after which every variable of every FIELD list of the handle is printed), and protocol violations chosen from the state (OPEN on a handle in use, OPEN FOR INPUT of a missing file, OPEN/KILL/NAME in a missing directory, reading past the end with one or several variables, INPUT#/LINE INPUT#/EOF/GET/PUT/FIELD on a closed handle, reading from an output handle, GET/PUT/FIELD on a sequential handle, KILL/NAME of a missing file; PRINT # on a closed or input handle only as the last operation). The history is steered by the model (mostly meaningful continuations) and rendered as ONE program: `ON ERROR GOTO h`, three module-level sentinels, per operation `PRINT \"K<i>:\"`, the statement, for reads `PRINT \"V<i>[..]\"`; epilogue CLOSE + sentinels; handler `PRINT \"E\"; ERR: RESUME NEXT`. The harness creates the scratch files before and reads their final bytes after the run. Oracle: a model of the store (name -> bytes) and handle table (mode, read position, print column, record length, all FIELD lists in effect, ONE record buffer per open RANDOM file of which every field variable of every list is a window starting from byte 0 of the list, records PUT in this session as buffer snapshots) gives per operation success or the demanded error (55 / 53 / 62 exactly; any code 50..76 for closed / wrong-mode handles and missing or uncreatable names), every value read, the sentinel line and the final bytes of every file. For one in three histories with a violation (and for every PRINT # violation) the prefix up to the first violation is also run WITHOUT handler, the violation being the last statement, and the run must end with the demanded error. Generator 2: a text payload is read by the same 1-8 INPUT / LINE INPUT statements once from a file FOR INPUT and once from standard input; the printed values must agree. A history is NON-TRIVIAL when it holds a write-close-reopen-read chain on one name, or PRINT # through APPEND onto text written through OUTPUT, or a GET of a record after another record was PUT since, or a GET that fills the variables of two or more FIELD lists, or a violation followed by further successful data operations (distinct by hash of program text + initial files); a console case when it has >= 2 reads."
    }
    fn assumptions(&self) -> Vec<&'static str> {
        vec![
            "PRINT # items are strings without CR/LF/quotes and integers in -99..999; the bytes written follow the C16 rule (number = sign or blank, digits, blank; `;` adds nothing; `,` pads to the next multiple of 14; CR LF unless the statement ends in a separator); a comma is generated only where the column is determined (not on the first line appended to a file that does not end in CR LF)",
            "INPUT # field = leading blanks skipped, up to the next comma / CR LF / end of file, terminator consumed; trailing blanks of a string field are not pinned (compared after trimming blanks); numeric variables only read fields that are plain integers of up to 3 digits; a blank-only tail at the end of the file is not pinned (not generated); payloads use CR LF line ends only",
            "EOF(n) is true exactly when no byte is left, and prints as -1 / 0",
            "the values of variables after a FAILED read are not pinned (not printed)",
            "RANDOM files: only records PUT in the same open session are read back; the bytes on disk, GET of unwritten records, PUT without FIELD or with never-assigned field variables, LSET values longer than the field, and the padding of shorter values (blank or NUL accepted at exactly the padding positions, also inside an overlay variable; bytes missing at the end of a variable count as padding) are not pinned: not generated / compared leniently; a file that was opened FOR RANDOM is afterwards only required to exist",
            "several FIELD statements on one open file (documented QBasic: any number may be in effect at once, each describes the record buffer from its first byte): after GET every variable of every list must hold its window of the record that was PUT. A PUT is generated only when the list addressed by the latest LSET (or declared by a later FIELD) has all its variables up to date, i.e. each was assigned by LSET or GET after the last LSET through an overlapping variable of another list, so that the variables' own values and the shared buffer agree on what the record is; mixes where they could differ (LSET through two overlapping lists before one PUT) are not pinned by the statement and not generated. Bytes of a record behind the end of the list it was composed through are not pinned (never compared). A repeated FIELD names the same variables with the same widths; FIELD that gives existing variables another layout, lists wider than LEN, and more than three lists are not generated; field variables are only printed right after a successful GET",
            "not generated because the statement is silent: two handles on one file unless both FOR INPUT, KILL/NAME of an open file, NAME onto an existing file, sequential statements (PRINT#/INPUT#/LINE INPUT#/EOF) on a RANDOM handle (legal in QBasic), OPEN on a handle in use combined with a second error condition",
            "OPEN FOR INPUT of a name in a missing directory may raise 53 or 76 (QBasic: Path not found); KILL/NAME of missing files and OUTPUT/APPEND/RANDOM in a missing directory must raise some file error 50..76",
            "files still open for writing when a program without handler dies are not compared (the statement says `once closed`)",
            "console and file form are compared only up to the first error of the file form (what the console does at the end of standard input is not pinned)",
        ]
    }
    fn run(&self, sh: &mut Shard) {
        let cases = sh.share(sh.tier.pick(25_000, 500_000));
        sh.search(1, cases, 40, 420, history_case);
        if !sh.stats.violations.is_empty() {
            return;
        }
        let cases = sh.share(sh.tier.pick(6_000, 100_000));
        sh.search(2, cases, 20, 160, duo_case);
    }
    fn replay(&self, _sh: &mut Shard, inputs: &Value) -> Result<(), Violation> {
        match inputs["kind"].as_str().unwrap_or("") {
            "history" => {
                let case = Case::from_json(inputs);
                let co = check_case(&case);
                let focus = inputs["focus"]["k"].as_u64();
                let mut first = None;
                for v in co.viols {
                    if focus.is_some() && v.inputs["focus"]["k"].as_u64() == focus {
                        return Err(v);
                    }
                    if first.is_none() {
                        first = Some(v);
                    }
                }
                match first {
                    Some(v) => Err(v),
                    None => Ok(()),
                }
            }
            "console-vs-file" => {
                let d = Duo::from_json(inputs);
                match check_duo(&d).0 {
                    Some(v) => Err(v),
                    None => Ok(()),
                }
            }
            "show" => {
                let mut init: [Option<Vec<u8>>; 3] = [None, None, None];
                for i in 0..3 {
                    init[i] = inputs["files"][NAMES[i]].as_str().map(|s| s.as_bytes().to_vec());
                }
                let src = inputs["program"].as_str().unwrap_or("");
                let stdin = inputs["stdin"].as_str().unwrap_or("");
                match execute(&init, src, stdin.as_bytes()) {
                    Ok(o) => {
                        println!("end: {}\nstdout:\n{:?}", o.end.short(), bstr(&o.stdout));
                        for i in 0..3 {
                            println!("{} = {:?}", NAMES[i], o.files[i].as_ref().map(|b| bstr(b)));
                        }
                    }
                    Err(e) => println!("rejected: {}", e.to_json()),
                }
                Ok(())
            }
            k => panic!("unknown replay kind {}", k),
        }
    }
}

//! C08 — a program the checker accepts always compiles and runs to a BASIC-level outcome.
//!
//! Wide, type-directed text generator over the whole statement and built-in repertoire
//! (with a "mischief" rate that plants wrongly typed expressions where only a deep
//! checker would notice). Only accepted programs count. Oracle: no panic, no process
//! death; the run ends normally or with a run-time error that has a code and a position.

use serde_json::{Value, json};

use crate::corpus;
use crate::engine::{Shard, Tape, Violation, hash64};
use crate::impl_run::{self, End, FrontErr, RunOpts};
use crate::props::Prop;

pub struct C08;

pub struct W<'t> {
    /// C12: no READ / INPUT / LINE INPUT / PRINT USING / INPUT # / LINE INPUT # / GET (statements that convert external data)
    pub no_external: bool,
    t: Tape<'t>,
    lines: Vec<String>,
    procs: Vec<String>,
    tail: Vec<String>,
    /// numeric scalar variables in scope (with suffix)
    nums: Vec<String>,
    strs: Vec<String>,
    arrays: Vec<(String, usize, bool)>, // name, dims, is_string
    recs: Vec<String>,
    fns: Vec<(String, usize)>,  // numeric functions: name, arity
    subs: Vec<(String, usize)>, // subs with numeric params
    labels: usize,
    handler: bool,
    routine: bool,
    mischief: u32,
    depth: usize,
    used_builtins: Vec<&'static str>,
    files_open: [bool; 3],
    in_proc: bool,
}

const NUMS: [&str; 16] = ["0", "1", "2", "-1", "3", "7", "255", "256", "32767", "-32768", "40000", "0.5", "2.25", "100000", "1.5#", "10"];
const STRS: [&str; 17] = ["\"123\u{e9}56\"", "(\"abc\" + CHR$(200) + \"x\")", "(CHR$(130) + \"abcdefgh\")","\"\"", "\"a\"", "\"Hello\"", "\"x,y\"", "\"  pad  \"", "\"12\"", "\"-3.5\"", "\"abc def\"", "\"QB45\"", "\"f1.tmp\"", "CHR$(200)", "\"Zo\u{eb} K\"", "STRING$(3, 233)", "(\"ab\" + CHR$(255) + \"cd\")"];
const FILES: [&str; 3] = ["\"f1.tmp\"", "\"f2.tmp\"", "\"f3.tmp\""];

impl<'t> W<'t> {
    pub fn new(tape: &'t [u32]) -> Self {
        W {
            no_external: false,
            t: Tape::new(tape),
            lines: vec![],
            procs: vec![],
            tail: vec![],
            nums: vec!["A%".into(), "B&".into(), "C!".into(), "D#".into(), "E".into()],
            strs: vec!["S$".into(), "T$".into()],
            arrays: vec![],
            recs: vec![],
            fns: vec![],
            subs: vec![],
            labels: 0,
            handler: false,
            routine: false,
            mischief: 0,
            depth: 0,
            used_builtins: vec![],
            files_open: [false; 3],
            in_proc: false,
        }
    }

    fn used(&mut self, b: &'static str) {
        if !self.used_builtins.contains(&b) {
            self.used_builtins.push(b);
        }
    }

    fn num_leaf(&mut self) -> String {
        match self.t.choose(3) {
            0 => self.t.pick(&NUMS).to_string(),
            _ => {
                let v = self.nums.clone();
                v[self.t.choose(v.len())].clone()
            }
        }
    }

    fn str_leaf(&mut self) -> String {
        match self.t.choose(3) {
            0 => self.t.pick(&STRS).to_string(),
            _ => {
                let v = self.strs.clone();
                v[self.t.choose(v.len())].clone()
            }
        }
    }

    /// numeric expression; with probability `mischief`/1000 a string-typed expression is planted instead
    fn num(&mut self, d: usize) -> String {
        if self.mischief > 0 && self.t.chance(self.mischief, 1000) {
            self.used("mischief");
            return self.str(d.min(1));
        }
        if d == 0 || self.t.chance(1, 3) {
            return self.num_leaf();
        }
        match self.t.choose(22) {
            0 | 1 => format!("{} + {}", self.num(d - 1), self.num(d - 1)),
            2 => format!("{} - {}", self.num(d - 1), self.num(d - 1)),
            3 => format!("{} * {}", self.num(d - 1), self.num(d - 1)),
            4 => format!("{} / {}", self.num(d - 1), self.num(d - 1)),
            5 => format!("({})", self.num(d - 1)),
            6 => format!("({} MOD {})", self.num(d - 1), self.num(d - 1)),
            7 => format!("({} {} {})", self.num(d - 1), self.t.pick(&["=", "<>", "<", "<=", ">", ">="]), self.num(d - 1)),
            8 => format!("({} {} {})", self.num(d - 1), self.t.pick(&["AND", "OR"]), self.num(d - 1)),
            9 => format!("(NOT {})", self.num(d - 1)),
            10 => format!("-({})", self.num(d - 1)),
            11 => {
                self.used("LEN");
                format!("LEN({})", self.str(d - 1))
            }
            12 => {
                self.used("INSTR");
                if self.t.chance(1, 2) { format!("INSTR({}, {})", self.str(d - 1), self.str(d - 1)) } else { format!("INSTR({}, {}, {})", self.num(d - 1), self.str(d - 1), self.str(d - 1)) }
            }
            13 => {
                self.used("VAL");
                format!("VAL({})", self.str(d - 1))
            }
            14 => {
                self.used("CVD");
                format!("CVD(MKD$({}))", self.num(d - 1))
            }
            15 => {
                if let Some((a, dims, _)) = self.pick_array(false) {
                    let dims = self.subscript_count(dims);
                    let idx: Vec<String> = (0..dims).map(|_| self.num(d - 1)).collect();
                    format!("{}({})", a, idx.join(", "))
                } else {
                    self.num_leaf()
                }
            }
            16 => {
                if let Some((a, dims, _)) = self.pick_array_any() {
                    self.used("LBOUND/UBOUND");
                    let f = *self.t.pick(&["LBOUND", "UBOUND"]);
                    if self.t.chance(1, 2) { format!("{}({})", f, a) } else { format!("{}({}, {})", f, a, self.t.range(0, dims as i64 + 1)) }
                } else {
                    self.num_leaf()
                }
            }
            17 => {
                if !self.fns.is_empty() {
                    let (f, ar) = self.fns[self.t.choose(self.fns.len())].clone();
                    if ar == 0 {
                        f
                    } else {
                        let args: Vec<String> = (0..ar).map(|_| self.num(d - 1)).collect();
                        format!("{}({})", f, args.join(", "))
                    }
                } else {
                    self.num_leaf()
                }
            }
            18 => {
                self.used("EOF");
                format!("EOF({})", 1 + self.t.choose(3))
            }
            19 => {
                self.used("ERR");
                "ERR".to_string()
            }
            20 => {
                if !self.recs.is_empty() {
                    let r = self.recs[self.t.choose(self.recs.len())].clone();
                    format!("{}.N", r)
                } else {
                    self.num_leaf()
                }
            }
            _ => {
                self.used("VARPTR/VARSEG/PEEK");
                let v = self.any_location();
                match self.t.choose(4) {
                    0 => format!("VARPTR({})", v),
                    1 => format!("VARSEG({})", v),
                    2 => format!("PEEK(VARPTR({}) + {})", v, self.t.pick(&["1", "0", "3", "7", "2", "8", "100"])),
                    _ => format!("PEEK(VARPTR({}))", v),
                }
            }
        }
    }

    fn str(&mut self, d: usize) -> String {
        if self.mischief > 0 && self.t.chance(self.mischief, 1000) {
            self.used("mischief");
            return self.num(d.min(1));
        }
        if d == 0 || self.t.chance(1, 3) {
            return self.str_leaf();
        }
        match self.t.choose(16) {
            0 | 1 => format!("{} + {}", self.str(d - 1), self.str(d - 1)),
            2 => {
                self.used("CHR$");
                format!("CHR$({})", self.num(d - 1))
            }
            3 => {
                self.used("LEFT$");
                format!("LEFT$({}, {})", self.str(d - 1), self.num(d - 1))
            }
            4 => {
                self.used("RIGHT$");
                format!("RIGHT$({}, {})", self.str(d - 1), self.num(d - 1))
            }
            5 => {
                self.used("MID$");
                if self.t.chance(1, 2) { format!("MID$({}, {})", self.str(d - 1), self.num(d - 1)) } else { format!("MID$({}, {}, {})", self.str(d - 1), self.num(d - 1), self.num(d - 1)) }
            }
            6 => {
                let f = *self.t.pick(&["UCASE$", "LCASE$", "LTRIM$", "RTRIM$"]);
                self.used("UCASE$/LCASE$/LTRIM$/RTRIM$");
                format!("{}({})", f, self.str(d - 1))
            }
            7 => {
                self.used("SPACE$");
                format!("SPACE$({})", self.small_count(d - 1))
            }
            8 => {
                self.used("STRING$");
                if self.t.chance(1, 2) { format!("STRING$({}, {})", self.small_count(d - 1), self.num(d - 1)) } else { format!("STRING$({}, {})", self.small_count(d - 1), self.str(d - 1)) }
            }
            9 => {
                self.used("STR$");
                format!("STR$({})", self.num(d - 1))
            }
            10 => {
                self.used("MKD$");
                format!("MKD$({})", self.num(d - 1))
            }
            11 => {
                self.used("ENVIRON$");
                format!("ENVIRON$({})", self.str(d - 1))
            }
            12 => format!("({})", self.str(d - 1)),
            13 => {
                if let Some((a, dims, _)) = self.pick_array(true) {
                    let dims = self.subscript_count(dims);
                    let idx: Vec<String> = (0..dims).map(|_| self.num(d - 1)).collect();
                    format!("{}({})", a, idx.join(", "))
                } else {
                    self.str_leaf()
                }
            }
            14 => {
                if !self.recs.is_empty() {
                    let r = self.recs[self.t.choose(self.recs.len())].clone();
                    format!("{}.T", r)
                } else {
                    self.str_leaf()
                }
            }
            _ => self.str_leaf(),
        }
    }

    /// counts for SPACE$/STRING$: never huge (memory), but negative / zero / fractional are fine
    fn small_count(&mut self, d: usize) -> String {
        match self.t.choose(4) {
            0 => self.t.pick(&["0", "1", "3", "-1", "2.5", "40", "255"]).to_string(),
            1 => format!("LEN({})", self.str(d.min(1))),
            _ => format!("({} MOD 50)", self.num(d.min(1))),
        }
    }

    /// The number of subscripts written for an array of `dims` dimensions: now and then one more or one fewer
    /// (whatever the checker makes of it, the program must not end in an internal failure).
    fn subscript_count(&mut self, dims: usize) -> usize {
        if self.t.chance(1, 14) {
            if dims > 1 && self.t.chance(1, 2) { dims - 1 } else { dims + 1 }
        } else {
            dims
        }
    }

    /// A variable of any kind: numeric or string scalar, array element, record, record field.
    fn any_location(&mut self) -> String {
        match self.t.choose(5) {
            0 => self.nums[0].clone(),
            1 => {
                let v = self.nums.clone();
                v[self.t.choose(v.len())].clone()
            }
            2 => {
                let v = self.strs.clone();
                v[self.t.choose(v.len())].clone()
            }
            3 => {
                if let Some((a, dims, _)) = self.pick_array_any() {
                    let dims = self.subscript_count(dims);
                    let idx: Vec<String> = (0..dims).map(|_| self.t.pick(&["1", "0", "2", "-1", "3"]).to_string()).collect();
                    format!("{}({})", a, idx.join(", "))
                } else {
                    self.nums[0].clone()
                }
            }
            _ => {
                if !self.recs.is_empty() {
                    let r = self.recs[self.t.choose(self.recs.len())].clone();
                    format!("{}{}", r, self.t.pick(&["", ".N", ".T", ".D"]))
                } else {
                    self.nums[0].clone()
                }
            }
        }
    }

    fn pick_array(&mut self, want_str: bool) -> Option<(String, usize, bool)> {
        let c: Vec<(String, usize, bool)> = self.arrays.iter().filter(|a| a.2 == want_str).cloned().collect();
        if c.is_empty() { None } else { Some(c[self.t.choose(c.len())].clone()) }
    }
    fn pick_array_any(&mut self) -> Option<(String, usize, bool)> {
        if self.arrays.is_empty() { None } else { Some(self.arrays[self.t.choose(self.arrays.len())].clone()) }
    }

    fn cond(&mut self) -> String {
        if self.t.chance(1, 4) {
            format!("{} {} {}", self.str(1), self.t.pick(&["=", "<>", "<", ">"]), self.str(1))
        } else {
            format!("{} {} {}", self.num(1), self.t.pick(&["=", "<>", "<", "<=", ">", ">="]), self.num(1))
        }
    }

    fn ind(&self) -> String {
        "  ".repeat(self.depth)
    }
    fn emit(&mut self, s: String) {
        let l = format!("{}{}", self.ind(), s);
        self.lines.push(l);
    }

    fn num_target(&mut self) -> String {
        match self.t.choose(5) {
            0 => {
                if let Some((a, dims, _)) = self.pick_array(false) {
                    let dims = self.subscript_count(dims);
                    let idx: Vec<String> = (0..dims).map(|_| self.num(1)).collect();
                    return format!("{}({})", a, idx.join(", "));
                }
                self.nums[0].clone()
            }
            1 => {
                if !self.recs.is_empty() {
                    let r = self.recs[self.t.choose(self.recs.len())].clone();
                    return format!("{}.N", r);
                }
                self.nums[self.nums.len() - 1].clone()
            }
            _ => {
                let v = self.nums.clone();
                v[self.t.choose(v.len())].clone()
            }
        }
    }
    fn str_target(&mut self) -> String {
        match self.t.choose(5) {
            0 => {
                if let Some((a, dims, _)) = self.pick_array(true) {
                    let dims = self.subscript_count(dims);
                    let idx: Vec<String> = (0..dims).map(|_| self.num(1)).collect();
                    return format!("{}({})", a, idx.join(", "));
                }
                self.strs[0].clone()
            }
            1 => {
                if !self.recs.is_empty() {
                    let r = self.recs[self.t.choose(self.recs.len())].clone();
                    return format!("{}.T", r);
                }
                self.strs[self.strs.len() - 1].clone()
            }
            _ => {
                let v = self.strs.clone();
                v[self.t.choose(v.len())].clone()
            }
        }
    }

    fn simple(&mut self) {
        let mut k = self.t.choose(30);
        if self.no_external && matches!(k, 8 | 10 | 11 | 12) {
            k = 20;
        }
        match k {
            0 | 1 | 2 => {
                let t = self.num_target();
                let e = self.num(2);
                self.emit(format!("{} = {}", t, e));
            }
            3 | 4 => {
                let t = self.str_target();
                // bounded: strings concatenated with themselves in loops would explode
                let e = self.str(2);
                self.emit(format!("{} = LEFT$({}, 40)", t, e));
            }
            5 | 6 | 7 => {
                let n = 1 + self.t.choose(3);
                let mut s = String::from(*self.t.pick(&["PRINT", "PRINT", "LPRINT"]));
                for k in 0..n {
                    s.push_str(if k == 0 { " " } else { *self.t.pick(&["; ", ", "]) });
                    let e = if self.t.chance(1, 2) { self.num(2) } else { self.str(2) };
                    s.push_str(&e);
                }
                if self.t.chance(1, 6) {
                    s.push(';');
                }
                self.emit(s);
            }
            8 => {
                self.used("PRINT USING");
                let f = *self.t.pick(&["\"###.##\"", "\"#,###\"", "\"\\  \\\"", "\"!\"", "\"## and ##\"", "\"\"", "\"abc\""]);
                let e = if self.t.chance(2, 3) { self.num(1) } else { self.str(1) };
                self.emit(format!("PRINT USING {}; {}", f, e));
            }
            9 => {
                // file statements
                self.file_stmt();
            }
            10 => {
                self.used("INPUT");
                let t = if self.t.chance(1, 2) { let v = self.nums.clone(); v[self.t.choose(v.len())].clone() } else { let v = self.strs.clone(); v[self.t.choose(v.len())].clone() };
                self.emit(format!("INPUT {}", t));
            }
            11 => {
                self.used("LINE INPUT");
                let t = { let v = self.strs.clone(); v[self.t.choose(v.len())].clone() };
                self.emit(format!("LINE INPUT {}", t));
            }
            12 => {
                self.used("READ");
                let t = if self.t.chance(2, 3) { self.num_target() } else { self.str_target() };
                self.emit(format!("READ {}", t));
            }
            13 => {
                let (s, b): (String, &'static str) = match self.t.choose(8) {
                    0 => ("CLS".into(), "CLS"),
                    1 => (format!("COLOR {}, {}", self.num(1), self.num(1)), "COLOR"),
                    2 => (format!("LOCATE {}, {}", self.num(1), self.num(1)), "LOCATE"),
                    3 => ("BEEP".into(), "BEEP"),
                    4 => (format!("VIEW PRINT {} TO {}", self.num(0), self.num(0)), "VIEW PRINT"),
                    5 => ("VIEW PRINT".into(), "VIEW PRINT"),
                    6 => (format!("WIDTH {}, {}", self.num(0), self.num(0)), "WIDTH"),
                    _ => (format!("ENVIRON {}", self.str(1)), "ENVIRON"),
                };
                self.used(b);
                self.emit(s);
            }
            14 => {
                self.used("DEF SEG/POKE");
                // any variable, array element, record or record field; any byte of it (and now and then one beyond it)
                let v = self.any_location();
                self.emit(format!("DEF SEG = VARSEG({})", v));
                let e = self.num(0);
                let off = *self.t.pick(&["", " + 1", " + 3", " + 7", " + 2", " + 9"]);
                self.emit(format!("POKE VARPTR({}){}, ({}) AND 255", v, off, e));
                if self.t.chance(1, 2) {
                    self.emit(format!("PRINT PEEK(VARPTR({}){})", v, off));
                }
                self.emit("DEF SEG".to_string());
            }
            15 => {
                if !self.subs.is_empty() {
                    let (s, ar) = self.subs[self.t.choose(self.subs.len())].clone();
                    let args: Vec<String> = (0..ar).map(|_| if self.t.chance(1, 2) { let v = self.nums.clone(); v[self.t.choose(v.len())].clone() } else { self.num(1) }).collect();
                    if args.is_empty() { self.emit(s) } else { self.emit(format!("{} {}", s, args.join(", "))) }
                } else {
                    let e = self.num(1);
                    self.emit(format!("PRINT {}", e));
                }
            }
            16 => {
                if self.routine && !self.in_proc {
                    self.emit("GOSUB Routine1".to_string());
                } else {
                    let e = self.str(1);
                    self.emit(format!("PRINT {}", e));
                }
            }
            17 => {
                self.used("REDIM");
                if let Some((a, dims, _)) = self.pick_array_any() {
                    if a.starts_with("RD") {
                        // bounds are literals or, now and then, run-time values and `lower TO upper` pairs - also reversed ones
                        // (upper below lower in one dimension: Subscript out of range / Illegal function call, never a crash)
                        let mut b: Vec<String> = vec![];
                        for _ in 0..dims {
                            let d = match self.t.choose(6) {
                                4 => format!("{} TO {}", self.num(0), self.num(0)),
                                5 => {
                                    let lo = self.t.range(-2, 5);
                                    let hi = self.t.range(-3, 6);
                                    format!("{} TO {}", lo, hi)
                                }
                                3 => self.num(0),
                                _ => format!("{}", self.t.range(1, 5)),
                            };
                            b.push(d);
                        }
                        self.emit(format!("REDIM {}({})", a, b.join(", ")));
                        if self.t.chance(1, 3) {
                            // dimensioned again right away (inside a subprogram this is the second REDIM of a SHARED array)
                            let b2: Vec<String> = (0..dims).map(|_| format!("{}", self.t.range(1, 6))).collect();
                            self.emit(format!("REDIM {}({})", a, b2.join(", ")));
                        }
                        return;
                    }
                }
                let e = self.num(1);
                self.emit(format!("PRINT {}", e));
            }
            18 => {
                if !self.recs.is_empty() && self.recs.len() >= 2 {
                    let a = self.recs[0].clone();
                    let b = self.recs[1].clone();
                    self.emit(format!("{} = {}", a, b));
                } else {
                    let e = self.num(2);
                    self.emit(format!("PRINT {}", e));
                }
            }
            _ => {
                let e = if self.t.chance(1, 2) { self.num(3) } else { self.str(3) };
                self.emit(format!("PRINT {}", e));
            }
        }
    }

    fn file_stmt(&mut self) {
        let h = 1 + self.t.choose(3);
        let f = *self.t.pick(&FILES);
        let mut k = self.t.choose(14);
        if self.no_external && matches!(k, 5 | 6 | 12) {
            k = 13;
        }
        match k {
            0 | 1 => {
                self.used("OPEN");
                let mode = *self.t.pick(&["OUTPUT", "INPUT", "APPEND", "OUTPUT"]);
                self.emit(format!("OPEN {} FOR {} AS #{}", f, mode, h));
                self.files_open[h - 1] = true;
            }
            2 => {
                self.used("OPEN RANDOM");
                let rl = *self.t.pick(&["16", "8", "0", "32"]);
                self.emit(format!("OPEN {} FOR RANDOM AS #{} LEN = {}", f, h, rl));
                self.emit(format!("FIELD #{}, 8 AS FA$, 8 AS FB$", h));
                self.used("FIELD");
                // (the FIELD list may be wider than the record: LEN = 8 or 0) a record is read or written right away
                match self.t.choose(4) {
                    1 => self.emit(format!("GET #{}, 1", h)),
                    2 => {
                        self.emit("LSET FB$ = \"q\"".to_string());
                        self.emit(format!("PUT #{}, 1", h));
                    }
                    _ => {}
                }
            }
            3 | 4 => {
                self.used("PRINT #");
                let e = if self.t.chance(1, 2) { self.num(1) } else { self.str(1) };
                // known finding: PRINT # on a closed handle panics; keep it to handles opened earlier in the text
                if self.files_open[h - 1] {
                    self.emit(format!("PRINT #{}, {}", h, e));
                } else {
                    self.emit(format!("PRINT {}", e));
                }
            }
            5 => {
                self.used("INPUT #");
                let t = if self.t.chance(1, 2) { let v = self.nums.clone(); v[self.t.choose(v.len())].clone() } else { let v = self.strs.clone(); v[self.t.choose(v.len())].clone() };
                self.emit(format!("INPUT #{}, {}", h, t));
            }
            6 => {
                self.used("LINE INPUT #");
                let t = { let v = self.strs.clone(); v[self.t.choose(v.len())].clone() };
                self.emit(format!("LINE INPUT #{}, {}", h, t));
            }
            7 | 8 => {
                self.used("CLOSE");
                if self.t.chance(1, 3) {
                    self.emit("CLOSE".to_string());
                    self.files_open = [false; 3];
                } else {
                    self.emit(format!("CLOSE #{}", h));
                    self.files_open[h - 1] = false;
                }
            }
            9 => {
                self.used("KILL");
                self.emit(format!("KILL {}", f));
            }
            10 => {
                self.used("NAME");
                let g = *self.t.pick(&FILES);
                self.emit(format!("NAME {} AS {}", f, g));
            }
            11 => {
                self.used("LSET/PUT");
                let e = self.str(1);
                self.emit(format!("LSET FA$ = {}", e));
                let r = self.num(0);
                self.emit(format!("PUT #{}, {}", h, r));
            }
            12 => {
                self.used("GET");
                let r = self.num(0);
                self.emit(format!("GET #{}, {}", h, r));
                self.emit("PRINT FA$; FB$".to_string());
            }
            _ => {
                self.used("EOF");
                self.emit(format!("IF EOF({}) THEN PRINT \"eof\"", h));
            }
        }
    }

    fn block(&mut self, budget: &mut usize, max: usize) {
        let n = 1 + self.t.choose(max);
        for _ in 0..n {
            if *budget == 0 {
                break;
            }
            self.stmt(budget);
        }
    }

    fn stmt(&mut self, budget: &mut usize) {
        *budget = budget.saturating_sub(1);
        if self.depth >= 3 || *budget < 2 || self.t.chance(3, 5) {
            self.simple();
            return;
        }
        self.labels += 1;
        let u = self.labels;
        match self.t.choose(8) {
            0 | 1 => {
                let c = self.cond();
                self.emit(format!("IF {} THEN", c));
                self.depth += 1;
                self.block(budget, 3);
                self.depth -= 1;
                if self.t.chance(1, 3) {
                    let c = self.cond();
                    self.emit(format!("ELSEIF {} THEN", c));
                    self.depth += 1;
                    self.block(budget, 2);
                    self.depth -= 1;
                }
                if self.t.chance(1, 2) {
                    self.emit("ELSE".to_string());
                    self.depth += 1;
                    self.block(budget, 2);
                    self.depth -= 1;
                }
                self.emit("END IF".to_string());
            }
            2 => {
                let strs = self.t.chance(1, 4);
                let subj = if strs { self.str(1) } else { self.num(1) };
                self.emit(format!("SELECT CASE {}", subj));
                let n = 1 + self.t.choose(3);
                for _ in 0..n {
                    let it = if strs {
                        match self.t.choose(3) {
                            0 => self.str(0),
                            1 => format!("IS >= {}", self.str(0)),
                            _ => format!("{} TO {}", self.str(0), self.str(0)),
                        }
                    } else {
                        match self.t.choose(4) {
                            0 => self.num(1),
                            1 => format!("IS < {}", self.num(0)),
                            2 => format!("{} TO {}", self.num(0), self.num(0)),
                            _ => format!("{}, {}", self.num(0), self.num(0)),
                        }
                    };
                    self.emit(format!("CASE {}", it));
                    self.depth += 1;
                    self.block(budget, 2);
                    self.depth -= 1;
                }
                if self.t.chance(1, 2) {
                    self.emit("CASE ELSE".to_string());
                    self.depth += 1;
                    self.block(budget, 2);
                    self.depth -= 1;
                }
                self.emit("END SELECT".to_string());
            }
            3 | 4 => {
                let v = format!("Q{}{}", u, self.t.pick(&["%", "&", "!", "#", ""]));
                let from = self.t.range(-2, 3);
                let step = *self.t.pick(&["", " STEP 1", " STEP -1", " STEP 2", " STEP 0.5"]);
                let to = if step.contains('-') { from - self.t.range(0, 3) } else { from + self.t.range(0, 3) };
                self.emit(format!("FOR {} = {} TO {}{}", v, from, to, step));
                self.depth += 1;
                self.nums.push(v.clone());
                self.block(budget, 3);
                self.nums.pop();
                self.depth -= 1;
                let named = self.t.chance(1, 3);
                self.emit(if named { format!("NEXT {}", v) } else { "NEXT".to_string() });
            }
            5 => {
                let v = format!("W{}%", u);
                self.emit(format!("{} = 0", v));
                let lim = 1 + self.t.choose(3);
                self.emit(format!("WHILE {} < {}", v, lim));
                self.depth += 1;
                self.block(budget, 3);
                self.emit(format!("{} = {} + 1", v, v));
                self.depth -= 1;
                self.emit("WEND".to_string());
            }
            _ => {
                let v = format!("W{}%", u);
                self.emit(format!("{} = 0", v));
                let n = 1 + self.t.choose(3);
                match self.t.choose(4) {
                    0 => self.emit(format!("DO WHILE {} < {}", v, n)),
                    1 => self.emit(format!("DO UNTIL {} >= {}", v, n)),
                    _ => self.emit("DO".to_string()),
                }
                let top = self.lines.last().unwrap().trim() != "DO";
                self.depth += 1;
                self.block(budget, 3);
                self.emit(format!("{} = {} + 1", v, v));
                self.depth -= 1;
                if top {
                    self.emit("LOOP".to_string());
                } else if self.t.chance(1, 2) {
                    self.emit(format!("LOOP WHILE {} < {}", v, n));
                } else {
                    self.emit(format!("LOOP UNTIL {} >= {}", v, n));
                }
            }
        }
    }

    pub fn program(mut self, size: usize, mischief: u32) -> (String, Vec<&'static str>) {
        // declarations
        if self.t.chance(1, 3) {
            self.lines.push("TYPE RecT".into());
            self.lines.push("  N AS INTEGER".into());
            self.lines.push("  T AS STRING * 4".into());
            self.lines.push("  D AS DOUBLE".into());
            self.lines.push("END TYPE".into());
            self.lines.push("DIM R1 AS RecT".into());
            self.lines.push("DIM R2 AS RecT".into());
            self.recs = vec!["R1".into(), "R2".into()];
        }
        let narr = self.t.choose(4);
        for k in 0..narr {
            let dims = 1 + self.t.choose(2);
            let is_str = self.t.chance(1, 3);
            let redim = self.t.chance(1, 4);
            let name = format!("{}{}{}", if redim { "RD" } else { "AR" }, k + 1, if is_str { "$" } else { *self.t.pick(&["%", "&", "!", "#"]) });
            let b: Vec<String> = (0..dims).map(|_| if self.t.chance(1, 2) { format!("{}", self.t.range(1, 4)) } else { format!("{} TO {}", self.t.range(-2, 1), self.t.range(1, 3)) }).collect();
            let shared = if self.t.chance(1, 3) { " SHARED" } else { "" };
            if redim && self.t.chance(1, 3) {
                // extended style: referenced (and dimensioned again) through the bare name
                let name = format!("RD{}x", k + 1);
                self.lines.push(format!("REDIM{} {}({}) AS {}", shared, name, b.join(", "), if is_str { "STRING" } else { "INTEGER" }));
                self.arrays.push((name, dims, is_str));
                continue;
            }
            self.lines.push(format!("{}{} {}({})", if redim { "REDIM" } else { "DIM" }, shared, name, b.join(", ")));
            self.arrays.push((name, dims, is_str));
        }
        if self.t.chance(1, 3) {
            self.lines.push("DIM SHARED GS%".into());
        }
        // procedures (signatures first so that calls are well-formed)
        let nf = self.t.choose(3);
        for k in 0..nf {
            self.fns.push((format!("Fn{}{}", k + 1, self.t.pick(&["%", "&", "!", "#"])), self.t.choose(3)));
        }
        let ns = self.t.choose(3);
        for k in 0..ns {
            self.subs.push((format!("Sb{}", k + 1), self.t.choose(3)));
        }
        self.routine = self.t.chance(1, 3);
        self.handler = self.t.chance(1, 3);
        if self.handler {
            self.lines.push(if self.t.chance(1, 4) { "ON ERROR RESUME NEXT".to_string() } else { "ON ERROR GOTO Handler1".to_string() });
        }
        self.mischief = mischief;
        let mut budget = size;
        while budget > 0 {
            self.stmt(&mut budget);
        }
        if self.t.chance(1, 2) {
            self.lines.push("CLOSE".into());
        }
        self.lines.push("END".into());
        if self.routine {
            self.lines.push("Routine1:".into());
            self.simple();
            self.lines.push("RETURN".into());
        }
        self.lines.push("Handler1:".into());
        self.lines.push("PRINT \"E\"; ERR".into());
        self.lines.push(if self.t.chance(1, 5) { "RESUME".to_string() } else { "RESUME NEXT".to_string() });
        if self.t.chance(2, 3) {
            let items: Vec<String> = (0..(1 + self.t.choose(5))).map(|_| if self.t.chance(2, 3) { self.t.pick(&NUMS).to_string() } else { self.t.pick(&STRS).to_string() }).collect();
            self.lines.push(format!("DATA {}", items.join(", ")));
        }
        // procedure bodies
        let main_nums = self.nums.clone();
        let main_strs = self.strs.clone();
        let fns = self.fns.clone();
        let subs = self.subs.clone();
        self.in_proc = true;
        for (k, (f, ar)) in fns.iter().enumerate() {
            let params: Vec<String> = (0..*ar).map(|j| format!("P{}{}", j + 1, ["%", "!", "#"][j % 3])).collect();
            self.lines.push(format!("FUNCTION {}{}{}", f, if params.is_empty() { String::new() } else { format!(" ({})", params.join(", ")) }, if self.t.chance(1, 4) { " STATIC" } else { "" }));
            self.nums = params.clone();
            self.nums.push("L1%".into());
            self.nums.push("L2#".into());
            self.strs = vec!["LS$".into()];
            // a function may call the ones before it
            self.fns = fns[..k].to_vec();
            self.depth = 1;
            let mut b = 3;
            while b > 0 {
                self.stmt(&mut b);
            }
            let e = self.num(1);
            self.emit(format!("{} = {}", f, e));
            if self.t.chance(1, 4) {
                self.emit("EXIT FUNCTION".into());
            }
            self.depth = 0;
            self.lines.push("END FUNCTION".into());
        }
        self.fns = fns.clone();
        for (s, ar) in subs.iter() {
            let params: Vec<String> = (0..*ar).map(|j| format!("P{}{}", j + 1, ["%", "!", "#"][j % 3])).collect();
            self.lines.push(format!("SUB {}{}{}", s, if params.is_empty() { String::new() } else { format!(" ({})", params.join(", ")) }, if self.t.chance(1, 4) { " STATIC" } else { "" }));
            self.nums = params.clone();
            self.nums.push("L1%".into());
            self.nums.push("L2&".into());
            self.strs = vec!["LS$".into()];
            self.subs = vec![];
            self.depth = 1;
            let mut b = 3;
            while b > 0 {
                self.stmt(&mut b);
            }
            for p in params.iter() {
                if self.t.chance(1, 2) {
                    let e = self.num(1);
                    self.emit(format!("{} = {}", p, e));
                }
            }
            self.depth = 0;
            self.lines.push("END SUB".into());
        }
        self.nums = main_nums;
        self.strs = main_strs;
        let mut text = self.lines.join("\n");
        text.push('\n');
        let _ = (&self.procs, &self.tail);
        (text, self.used_builtins)
    }
}

fn stdin_for(t: &mut Tape) -> Vec<u8> {
    let n = t.choose(6);
    let mut out = vec![];
    for _ in 0..n {
        match t.choose(8) {
            0 => out.extend_from_slice(b"12\r\n"),
            1 => out.extend_from_slice(b"hello, world\r\n"),
            2 => out.extend_from_slice(b"\r\n"),
            3 => out.extend_from_slice(b"-3.5,abc\n"),
            4 => out.extend_from_slice(b"99999999999\r\n"),
            5 => out.extend_from_slice(b"1e5\r\n"),
            6 => {
                for _ in 0..(1 + t.choose(6)) {
                    out.push(t.raw() as u8);
                }
                out.push(b'\n');
            }
            _ => out.extend_from_slice(b"x"),
        }
    }
    out
}

fn clean_files() {
    for f in ["f1.tmp", "f2.tmp", "f3.tmp"] {
        let _ = std::fs::remove_file(f);
    }
}

/// Runs one accepted-or-not program text; only accepted programs are judged.
pub fn judge(sh: &mut Shard, text: &str, stdin: &[u8], source: &str, builtins: &[&'static str]) -> Result<(), Violation> {
    let inputs = json!({"program": text, "stdin": String::from_utf8_lossy(stdin), "stdin_bytes": stdin, "source": source});
    sh.journal(text);
    let (p, ctx) = match impl_run::front(text) {
        Ok(x) => x,
        Err(FrontErr::Panic { .. }) => {
            // a panic of the parser/checker is C07's property, not this one
            sh.discard("parser/checker panic (C07)");
            return Ok(());
        }
        Err(e) => {
            sh.discard(&format!("rejected:{}", e.class().split(':').take(2).collect::<Vec<_>>().join(":")));
            return Ok(());
        }
    };
    sh.eval();
    sh.class(&format!("source:{}", source));
    let c = match impl_run::codegen(p, ctx) {
        Ok(c) => c,
        Err(e) => return Err(Violation::new(e.class(), "an accepted program made the instruction generator panic", inputs).exp_obs("instruction list", e.to_json())),
    };
    clean_files();
    let mut opts = RunOpts::budget(400_000);
    opts.stdin = stdin.to_vec();
    let out = impl_run::run(c, &opts);
    clean_files();
    match &out.end {
        End::Ok => sh.class("end:ok"),
        End::Budget => sh.class("end:budget (inconclusive)"),
        End::Err { code: Some(c), .. } => sh.class(&format!("end:error-{}", c)),
        _ => {}
    }
    if out.statements >= 3 && !builtins.is_empty() {
        sh.nontrivial(hash64(text));
    }
    for b in builtins {
        sh.class(&format!("uses:{}", b));
    }
    match &out.end {
        End::Panic(p) => Err(Violation::new(format!("panic:run:{}", p.sig()), format!("an accepted program ended in an internal failure: {}", p.msg.chars().take(160).collect::<String>()), inputs).exp_obs("normal end or a BASIC run-time error with code and position", json!({"panic": p.msg, "at": p.loc, "stdout": out.stdout_str()}))),
        End::Err { code: None, name, .. } => Err(Violation::new(format!("error-without-code:{}", name.chars().take(30).collect::<String>()), "run-time error that cannot be reported (no code)", inputs).exp_obs("error with a code", out.end.to_json())),
        End::Err { pos, .. } if pos.is_empty() => Err(Violation::new("error-without-position", "run-time error without a source position", inputs).exp_obs("error with a position", out.end.to_json())),
        _ => Ok(()),
    }
}

fn one_case(sh: &mut Shard, tape: &[u32], size: usize) -> Result<(), Violation> {
    let mut t = Tape::new(tape);
    let mischief = *t.pick(&[0u32, 0, 15, 40]);
    let stdin = stdin_for(&mut t);
    let used = t.used();
    let (text, builtins) = W::new(&tape[used.min(tape.len())..]).program(size, mischief);
    sh.sample_sparse(401, || json!({"program": text, "stdin": String::from_utf8_lossy(&stdin)}));
    judge(sh, &text, &stdin, if mischief > 0 { "wide-mischief" } else { "wide" }, &builtins)
}

impl Prop for C08 {
    fn id(&self) -> &'static str {
        "C08"
    }
    fn rule(&self) -> &'static str {
        "A wide, type-directed text generator builds programs over the whole repertoire: all five types, arrays (DIM/REDIM, 1-2 dimensions, negative lower bounds), a record TYPE with fixed string, SUBs/FUNCTIONs (STATIC, parameters, EXIT), GOSUB/RETURN, ON ERROR GOTO / RESUME NEXT / ON ERROR RESUME NEXT, DATA/READ, INPUT / LINE INPUT on arbitrary stdin bytes, every file statement (OPEN in four modes, PRINT #, INPUT #, LINE INPUT #, EOF, CLOSE, KILL, NAME, FIELD, LSET, PUT, GET) against the scratch directory, screen statements, ENVIRON, DEF SEG/POKE/PEEK through VARSEG/VARPTR, and every built-in function with arguments of every statically admissible shape incl. zero/negative/huge/fractional values; half of the programs carry a mischief rate that plants a wrongly typed expression inside parentheses, argument lists, subscripts, CASE lists and PRINT lists. Plus every accepted repository program with random stdin. Only programs the checker accepts are judged (rejection rate reported). Violation = a panic in the instruction generator or the VM, process death, or a run-time error without code/position. Non-trivial = accepted, >= 3 statements executed and >= 1 built-in used; distinct by program text."
    }
    fn assumptions(&self) -> Vec<&'static str> {
        vec![
            "INKEY$, DEF SEG = 0 (keyboard state) and SYSTEM through the real stdlib are never generated: they touch the real machine",
            "exhausting the instruction budget is inconclusive (a generated program may legitimately loop)",
            "string lengths are bounded by construction (no out-of-memory scenarios)",
            "panics of the parser/checker are C07's concern and are discarded here",
        ]
    }
    fn death_is_violation(&self) -> bool {
        true
    }
    fn run(&self, sh: &mut Shard) {
        // corpus with two random stdins
        let all = corpus::candidates();
        for (i, text) in all.iter().enumerate() {
            if !sh.mine(i as u64) || corpus::uses_machine(text) {
                continue;
            }
            for stdin in [&b"1\r\n2\r\nabc\r\n"[..], &b"x,y\n\n-5\n99999\n"[..]] {
                let r = judge(sh, text, stdin, "corpus", &["(corpus)"]);
                if !sh.report(r) {
                    return;
                }
            }
        }
        // the fault x position x context matrix (props/faults.rs): whatever of it the checker accepts must run cleanly
        {
            use crate::props::faults;
            let np = faults::pairs();
            let nc = faults::CONTEXTS.len();
            for k in 0..np * nc {
                if !sh.mine(k as u64) {
                    continue;
                }
                let (_, _, stmt, _) = faults::pair(k / nc);
                let Some(case) = faults::place(&stmt, k % nc) else { continue };
                let r = judge(sh, &case.text, b"", "fault-matrix", &["(matrix)"]);
                if !sh.report(r) {
                    return;
                }
            }
            sh.note("fault_matrix_programs", json!(np * nc));
            if sh.shard == 0 {
                for kind in 0..faults::JUMP_KINDS.len() {
                    for source in 0..faults::JUMP_SOURCES.len() {
                        for case in 0..faults::JUMP_TARGETS.len() * 3 {
                            let (target, order) = (case / 3, case % 3);
                            let jc = faults::jump_case(kind, source, target, order);
                            let r = judge(sh, &jc.text, b"", "jump-scope-matrix", &["(matrix)"]);
                            if !sh.report(r) {
                                return;
                            }
                        }
                    }
                }
            }
        }
        let cases = sh.share(sh.tier.pick(24_000, 900_000));
        let size = sh.tier.pick(10, 18);
        sh.search(1, cases, 60, sh.tier.pick(500, 900), |sh, tape| one_case(sh, tape, size));
    }
    fn replay(&self, sh: &mut Shard, inputs: &Value) -> Result<(), Violation> {
        let text = inputs["program"].as_str().unwrap_or("");
        let stdin: Vec<u8> = match inputs["stdin_bytes"].as_array() {
            Some(a) => a.iter().map(|x| x.as_u64().unwrap_or(0) as u8).collect(),
            None => inputs["stdin"].as_str().unwrap_or("").as_bytes().to_vec(),
        };
        // in replay a parser/checker panic is reported too
        if let Err(FrontErr::Panic { stage, info }) = impl_run::front(text) {
            return Err(Violation::new(format!("panic:{}:{}", stage, info.sig()), "parser/checker panicked", inputs.clone()));
        }
        judge(sh, text, &stdin, "replay", &["(replay)"])
    }
}

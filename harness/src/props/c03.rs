//! C03 — calls: by-reference arguments, fresh locals, results, STATIC and SHARED state.

use rusty_variant::Variant;
use serde_json::{Value, json};

use crate::engine::{Shard, Violation, hash64};
use crate::genr::build::{Gen, GenCfg};
use crate::genr::print::{Layout, render};
use crate::impl_run::{self, End, RunOpts};
use crate::props::Prop;
use crate::props::c01::{classify, expect_of, replay_program};
use crate::props::common::{compare_end, norm_numbers, ref_end_json};
use crate::refsem::{self, Outcome, RefResult};

pub struct C03;

/// Compares the final module-level variables of the implementation with the reference's.
pub fn compare_globals(res: &RefResult, globals: &[(String, Variant)]) -> Option<String> {
    for (name, rendered) in &res.globals {
        // rendered: "Int:5" | "\"text\"" | "[...]" | "{...}"
        let qualified = if name.ends_with(['%', '&', '!', '#', '$']) { name.clone() } else { format!("{}!", name) };
        let found = globals.iter().find(|(n, _)| n.to_uppercase() == qualified).map(|(_, v)| v);
        if let Some((_, num)) = rendered.split_once(':').filter(|(t, _)| ["Int", "Long", "Single", "Double"].contains(t)) {
            let want: f64 = num.parse().unwrap_or(f64::NAN);
            let got: f64 = match found {
                None => 0.0,
                Some(Variant::VInteger(i)) => *i as f64,
                Some(Variant::VLong(l)) => *l as f64,
                Some(Variant::VSingle(f)) => *f as f64,
                Some(Variant::VDouble(d)) => *d,
                Some(other) => return Some(format!("{} expected number {}, holds {:?}", name, num, other)),
            };
            if want != got {
                return Some(format!("{} expected {}, holds {}", name, num, got));
            }
        } else if rendered.starts_with('"') {
            let want: String = serde_json::from_str(rendered).unwrap_or_else(|_| rendered.trim_matches('"').to_string());
            let got = match found {
                None => String::new(),
                Some(Variant::VString(s)) => s.clone(),
                Some(other) => return Some(format!("{} expected string, holds {:?}", name, other)),
            };
            if want != got {
                return Some(format!("{} expected {:?}, holds {:?}", name, want, got));
            }
        }
    }
    None
}

fn one_case(sh: &mut Shard, tape: &[u32], cfg: &GenCfg) -> Result<(), Violation> {
    let prog = Gen::new(tape, cfg).calls_program();
    // a third of the programs write (some of) their SUB calls in the long spelling `CALL Name(args)`
    let mut lay = Layout::plain();
    let tape_hash = hash64(&tape);
    if tape_hash % 3 == 0 {
        lay.call_kw = 500;
        lay.seed = tape_hash;
        sh.class("spelling:CALL-statements");
    }
    let r = render(&prog, &lay);
    sh.eval();
    let res = match refsem::run(&prog, 200_000) {
        Outcome::Undetermined(why, _) => {
            sh.discard(&format!("undetermined: {}", why));
            return Ok(());
        }
        Outcome::Determined(r) => r,
    };
    classify(sh, &res);
    let f = &res.features;
    if f.contains("by-ref-changed") || f.contains("static-reentry") || f.contains("nested-call") {
        sh.nontrivial(hash64(&r.text));
    }
    sh.sample_sparse(211, || json!({"program": r.text, "expected_stdout": res.stdout, "expected_end": ref_end_json(&res.end)}));
    sh.journal(&r.text);
    let exp = expect_of(&res);
    let budget = exp.statements * 5_000 + 1_000_000;
    let sites: Vec<Value> = match &exp.end {
        refsem::RefEnd::Err(e) => e.paths.iter().filter_map(|p| r.sites.get(p)).map(|s| json!({"row":s.row,"col_start":s.col_start,"col_end":s.col_end})).collect(),
        _ => vec![],
    };
    let inputs = json!({"program": r.text, "expected_stdout": exp.stdout, "expected_end": ref_end_json(&exp.end), "expected_error_sites": sites, "triggers": exp.triggers, "ref_statements": exp.statements, "expected_globals": res.globals});
    let attributed = |default: &str| -> String { exp.triggers.first().cloned().unwrap_or(default.to_string()) };
    // every parameter, local and global must hold a value of its own type at every statement boundary
    // ("passed by value after conversion to the parameter type")
    let mut opts = RunOpts::budget(budget);
    opts.typed_vars = true;
    let out = match impl_run::run_src(&r.text, &opts) {
        Err(e) => return Err(Violation::new(attributed(&format!("c03-rejected:{}", e.class())), "well-formed generated program with procedures rejected or crashed before running", inputs).exp_obs("accepted", e.to_json())),
        Ok(o) => o,
    };
    if let Some(a) = &out.typed_anomaly {
        return Err(Violation::new(attributed("c03-typed-variable"), format!("a variable or parameter holds a value that is not of its declared type: {}", a), inputs).exp_obs("every variable holds a value of its type", a.clone()));
    }
    if let End::Budget = out.end {
        return Err(Violation::new(attributed("c03-nontermination"), "implementation exceeded the instruction budget derived from the terminating reference run", inputs));
    }
    if norm_numbers(&out.stdout_str()) != norm_numbers(&exp.stdout) {
        return Err(Violation::new(attributed("c03-stdout"), "printed text differs from the reference semantics of calls", inputs).exp_obs(json!({"stdout":exp.stdout,"end":ref_end_json(&exp.end)}), json!({"stdout":out.stdout_str(),"end":out.end.to_json()})));
    }
    if let Some(why) = compare_end(&exp.end, &out.end, &r, true) {
        return Err(Violation::new(attributed("c03-end"), format!("program ends differently from the reference semantics: {}", why), inputs).exp_obs(ref_end_json(&exp.end), out.end.to_json()));
    }
    if matches!(out.end, End::Ok) {
        if let Some(why) = compare_globals(&res, &out.globals) {
            return Err(Violation::new(attributed("c03-globals"), format!("final module-level variables differ: {}", why), inputs).exp_obs(json!(res.globals), why));
        }
    }
    Ok(())
}

impl Prop for C03 {
    fn id(&self) -> &'static str {
        "C03"
    }
    fn rule(&self) -> &'static str {
        "Tape-decoded programs with 1-5 SUBs/FUNCTIONs (some STATIC, parameters of all five types, bare and AS-typed), DIM SHARED variables, CONSTs, a recursive function with a by-reference accumulator and a fresh local, arguments as plain variables (by reference), literals, expressions, parenthesised variables and values of another type (by value, converted), calls nested in expressions and argument lists, every procedure called from the main module (STATIC ones at least twice) and from later procedures. Oracle: reference semantics (copy-in/copy-out left to right, fresh locals, STATIC blocks, shared globals, last assigned function value); stdout, ending and the final typed dump of module-level variables must agree. Non-trivial = a by-reference argument was changed by the callee, or a STATIC procedure was re-entered, or a call ran inside another call; distinct by program text."
    }
    fn assumptions(&self) -> Vec<&'static str> {
        vec![
            "aliasing the statement does not define is never generated (same variable twice by reference; SHARED variable by reference)",
            "array parameters are exercised by C04, not here",
            "reference semantics of Appendix A",
        ]
    }
    fn run(&self, sh: &mut Shard) {
        let cases = sh.share(sh.tier.pick(12_000, 400_000));
        let mut cfg = GenCfg::core(sh.tier.pick(10, 24), sh.tier.pick(2, 4));
        cfg.procs = true;
        cfg.errors = false;
        cfg.data = false;
        cfg.deftypes = false;
        sh.search(1, cases, 60, sh.tier.pick(400, 800), |sh, tape| one_case(sh, tape, &cfg));
    }
    fn replay(&self, _sh: &mut Shard, inputs: &Value) -> Result<(), Violation> {
        replay_program(inputs, "c03")
    }
}

//! C11 — every diagnostic names the right place in the source.
//! Accepted generated programs, rendered under a random layout, with ONE fault injected at a
//! statement chosen anywhere; the reported row/column (and the call-site rows for run-time
//! faults inside procedures) are compared with the printer's site map.

use serde_json::{Value, json};

use crate::engine::{Shard, Tape, Violation, hash64};
use crate::genr::build::{Gen, GenCfg};
use crate::genr::inject::{add_scalar, count_slots, replace_slot};
use crate::genr::ir::*;
use crate::genr::print::{Eol, Layout, Rendered, render};
use crate::impl_run::{self, End, FrontErr, RunOpts};
use crate::props::Prop;
use crate::refsem::{self, Outcome, RefEnd};

pub struct C11;


/// The original fault kinds (kept under their names: regress witnesses and known findings refer to them).
const LEGACY_STATIC: [&str; 7] = ["syntax-double-equals", "syntax-stray-paren", "syntax-dangling-operator", "syntax-bad-for", "type-mismatch", "undefined-label", "argument-count"];
/// Run-time faults that exist as IR (the reference semantics decides whether and through which call sites they are reached).
const IR_RUNTIME: [&str; 7] = ["division-by-zero", "subscript-out-of-range", "overflow", "mod-by-zero", "subscript-out-of-range-read", "illegal-function-call", "overflow-in-expression"];

// ------------------------------------------------------------------------------------------------
// The fault catalogue: one entry = one statement text that has exactly one diagnostic, raised for that statement.
// ------------------------------------------------------------------------------------------------

#[derive(Clone, Copy, Debug, PartialEq)]
pub enum Exp {
    /// rejected by the parser (any parser error variant)
    Parse,
    /// rejected by the checker with one of these error variants
    Lint(&'static [&'static str]),
    /// accepted; fails at run time with this error code when the statement executes
    Run(i32),
}

/// may stand after THEN / ELSE of a one-line IF and in front of `: statement`
const S: u16 = 1;
/// nothing may follow on the same line (the diagnostic depends on the line end, or `name:` would become a label)
const TAIL: u16 = 2;
/// must start its line (labels)
const LS: u16 = 4;
/// a stray block closer: never inside a block or a one-line IF
const NB: u16 = 8;
/// main module only
const MO: u16 = 16;
/// SUB bodies only
const SO: u16 = 32;
/// FUNCTION bodies only
const FO: u16 = 64;
/// needs the helper procedures `ZSb (ZPA%, ZPB%)` and `ZFn% (ZPA%, ZPB%)`
const H: u16 = 128;
/// needs `TYPE ZT` (fields ZA AS INTEGER, ZS AS STRING * 4)
const T: u16 = 256;

pub struct Fault {
    /// `group:variant`; the group is part of the violation signature
    pub name: &'static str,
    pub text: &'static str,
    /// statements of the same scope that come earlier (declarations, values)
    pub pre: &'static [&'static str],
    pub exp: Exp,
    pub fl: u16,
}

const fn f(name: &'static str, text: &'static str, pre: &'static [&'static str], exp: Exp, fl: u16) -> Fault {
    Fault { name, text, pre, exp, fl }
}

const ACM: Exp = Exp::Lint(&["ArgumentCountMismatch"]);
const ACM0: Exp = Exp::Lint(&["ArgumentCountMismatch", "FunctionNeedsArguments"]);
const ATM: Exp = Exp::Lint(&["ArgumentTypeMismatch", "TypeMismatch", "VariableRequired"]);
const TM: Exp = Exp::Lint(&["TypeMismatch", "ArgumentTypeMismatch"]);
const LND: Exp = Exp::Lint(&["LabelNotDefined"]);
const DUPL: Exp = Exp::Lint(&["DuplicateLabel"]);
const DUPD: Exp = Exp::Lint(&["DuplicateDefinition"]);
const OUTS: Exp = Exp::Lint(&["IllegalOutsideSubFunction"]);
const INS: Exp = Exp::Lint(&["IllegalInSubFunction"]);
const TND: Exp = Exp::Lint(&["TypeNotDefined"]);
const END_: Exp = Exp::Lint(&["ElementNotDefined"]);
const SND: Exp = Exp::Lint(&["SubprogramNotDefined"]);
const VREQ: Exp = Exp::Lint(&["VariableRequired"]);
const ICON: Exp = Exp::Lint(&["InvalidConstant"]);
const NWF: Exp = Exp::Lint(&["NextWithoutFor"]);
const P: Exp = Exp::Parse;

const DIM_ZA: &[&str] = &["DIM ZA%(5)"];
const DIM_ZA2: &[&str] = &["DIM ZA%(2)"];
const SET_ZL: &[&str] = &["ZL& = 100000"];
const SET_ZN: &[&str] = &["ZN% = -1"];
const DIM_ZR: &[&str] = &["DIM ZR AS ZT"];
const CONST_ZC: &[&str] = &["CONST ZC = 1"];
const DECL_SB: &[&str] = &["DECLARE SUB ZSb (ZPA%, ZPB%)"];
const DECL_FN: &[&str] = &["DECLARE FUNCTION ZFn% (ZPA%, ZPB%)"];

pub const CATALOGUE: &[Fault] = &[
    // ---- wrong argument count: user SUB
    f("argc-user-sub:more", "ZSb 1, 2, 3", &[], ACM, S | H),
    f("argc-user-sub:fewer", "ZSb 1", &[], ACM, S | H),
    f("argc-user-sub:none", "ZSb", &[], ACM, S | H | TAIL),
    f("argc-user-sub:call-fewer", "CALL ZSb(1)", &[], ACM, S | H),
    f("argc-user-sub:call-more", "CALL ZSb(1, 2, 3)", &[], ACM, S | H),
    f("argc-user-sub:call-none", "CALL ZSb", &[], ACM, S | H),
    // ---- wrong argument count: user FUNCTION in every expression position
    f("argc-user-fn:fewer-assign", "ZQ% = ZFn%(1)", &[], ACM, S | H),
    f("argc-user-fn:more-assign", "ZQ% = ZFn%(1, 2, 3)", &[], ACM, S | H),
    f("argc-user-fn:none-assign", "ZQ% = ZFn%", &[], ACM, S | H),
    f("argc-user-fn:bare-name", "ZQ% = ZFn(1)", &[], ACM, S | H),
    f("argc-user-fn:in-builtin-args", "ZQ% = 1 + LEN(STR$(ZFn%(1)))", &[], ACM, S | H),
    f("argc-user-fn:in-parens", "PRINT (ZFn%(1, 2, 3) + 1) * 2", &[], ACM, S | H),
    f("argc-user-fn:in-sub-args", "ZSb ZFn%(1), 2", &[], ACM, S | H),
    f("argc-user-fn:in-own-args", "ZQ% = ZFn%(ZFn%(1), 2)", &[], ACM, S | H),
    f("argc-user-fn:in-subscript-target", "ZA%(ZFn%(1)) = 1", DIM_ZA, ACM, S | H),
    f("argc-user-fn:in-subscript-read", "PRINT ZA%(ZFn%(1, 2, 3))", DIM_ZA, ACM, S | H),
    f("argc-user-fn:in-if-condition", "IF ZFn%(1) > 0 THEN PRINT 1", &[], ACM, H | TAIL),
    f("argc-user-fn:in-if-branch", "IF ZK1% = 1 THEN PRINT 1 ELSE PRINT ZFn%(1)", &[], ACM, H | TAIL),
    f("argc-user-fn:in-print-list", "PRINT \"a\"; ZFn%(1); \"b\"", &[], ACM, S | H),
    f("argc-user-fn:in-string-builtin", "ZQ$ = LEFT$(\"abc\", ZFn%(1))", &[], ACM, S | H),
    f("argc-user-fn:in-comparison", "ZQ% = (ZFn%(1, 2, 3) = 3) AND 1", &[], ACM, S | H),
    // ---- wrong argument count: built-in functions and subs
    f("argc-builtin-fn:len", "ZQ% = LEN(\"a\", \"b\")", &[], ACM, S),
    f("argc-builtin-fn:chr-bare", "ZQ$ = CHR$", &[], ACM0, S),
    f("argc-builtin-fn:chr-empty", "ZQ$ = CHR$()", &[], ACM0, S),
    f("argc-builtin-fn:asc-empty", "ZQ% = ASC()", &[], ACM0, S),
    f("argc-builtin-fn:mid", "ZQ$ = MID$(\"abc\")", &[], ACM, S),
    f("argc-builtin-fn:left", "ZQ$ = LEFT$(\"abc\")", &[], ACM, S),
    f("argc-builtin-fn:ucase", "ZQ$ = UCASE$(\"a\", \"b\")", &[], ACM, S),
    f("argc-builtin-fn:str", "ZQ$ = STR$(1, 2)", &[], ACM, S),
    f("argc-builtin-fn:instr", "ZQ% = INSTR(\"a\")", &[], ACM, S),
    f("argc-builtin-fn:val", "ZQ! = VAL(\"1\", \"2\")", &[], ACM, S),
    f("argc-builtin-fn:nested-print", "PRINT 1 + LEN(\"a\", \"b\")", &[], ACM, S),
    f("argc-builtin-fn:nested-arg", "ZQ$ = LEFT$(MID$(\"abc\"), 1)", &[], ACM, S),
    f("argc-builtin-sub:kill-none", "KILL", &[], ACM, S | TAIL),
    f("argc-builtin-sub:kill-more", "KILL \"a\", \"b\"", &[], ACM, S),
    f("argc-builtin-sub:environ-none", "ENVIRON", &[], ACM, S | TAIL),
    f("argc-builtin-sub:locate-more", "LOCATE 1, 2, 3, 4, 5, 6", &[], ACM, S),
    f("argc-builtin-sub:beep-more", "BEEP 1", &[], ACM, S),
    f("argc-builtin-sub:color-more", "COLOR 1, 2, 3, 4", &[], ACM, S),
    // ---- wrong argument type
    f("argt-user-sub:first", "ZSb \"x\", 2", &[], ATM, S | H),
    f("argt-user-sub:second", "ZSb 1, \"y\"", &[], ATM, S | H),
    f("argt-user-sub:call", "CALL ZSb(\"x\", 2)", &[], ATM, S | H),
    f("argt-user-sub:byref-string", "ZSb ZS$, 1", &["ZS$ = \"a\""], ATM, S | H),
    f("argt-user-sub:byref-long", "ZSb ZL&, 1", SET_ZL, ATM, S | H),
    f("argt-user-fn:first", "ZQ% = ZFn%(\"x\", 2)", &[], ATM, S | H),
    f("argt-user-fn:second-print", "PRINT 1 + ZFn%(1, \"y\")", &[], ATM, S | H),
    f("argt-user-fn:nested", "ZQ% = LEN(STR$(ZFn%(\"x\", 2)))", &[], ATM, S | H),
    f("argt-user-fn:byref-long", "ZQ% = ZFn%(1, ZL&)", SET_ZL, ATM, S | H),
    f("argt-user-fn:in-sub-args", "ZSb ZFn%(1, \"y\"), 2", &[], ATM, S | H),
    f("argt-builtin-fn:chr", "ZQ$ = CHR$(\"a\")", &[], ATM, S),
    f("argt-builtin-fn:left-first", "ZQ$ = LEFT$(1, 2)", &[], ATM, S),
    f("argt-builtin-fn:left-second", "ZQ$ = LEFT$(\"abc\", \"b\")", &[], ATM, S),
    f("argt-builtin-fn:ucase-in-parens", "PRINT (UCASE$(5))", &[], ATM, S),
    f("argt-builtin-fn:mid", "ZQ$ = MID$(\"abc\", \"x\")", &[], ATM, S),
    f("argt-builtin-fn:instr", "ZQ% = INSTR(1, 2)", &[], ATM, S),
    f("argt-builtin-fn:val", "ZQ% = VAL(5)", &[], ATM, S),
    f("argt-builtin-fn:str", "ZQ$ = STR$(\"a\")", &[], ATM, S),
    f("argt-builtin-fn:nested", "ZQ$ = UCASE$(LEN(\"a\"))", &[], ATM, S),
    f("argt-builtin-fn:len-of-number", "PRINT 1 + LEN(5)", &[], ATM, S),
    f("argt-builtin-sub:kill", "KILL 5", &[], ATM, S),
    f("argt-builtin-sub:environ", "ENVIRON 5", &[], ATM, S),
    f("argt-builtin-sub:locate", "LOCATE \"a\"", &[], ATM, S),
    f("argt-builtin-sub:color", "COLOR \"a\"", &[], ATM, S),
    f("argt-builtin-sub:open", "OPEN 5 FOR INPUT AS #1", &[], ATM, S),
    f("argt-builtin-sub:line-input", "LINE INPUT ZQ%", &[], ATM, S),
    f("argt-builtin-sub:close", "CLOSE \"a\"", &[], ATM, S),
    // ---- undefined label
    f("label:goto", "GOTO ZNo", &[], LND, S),
    f("label:gosub", "GOSUB ZNo", &[], LND, S),
    f("label:on-error", "ON ERROR GOTO ZNo", &[], LND, S),
    f("label:resume", "RESUME ZNo", &[], LND, S | MO),
    f("label:return", "RETURN ZNo", &[], LND, S | MO),
    f("label:if-then-goto", "IF ZK1% = 1 THEN GOTO ZNo", &[], LND, TAIL),
    f("label:if-else-goto", "IF ZK1% = 1 THEN PRINT 1 ELSE GOTO ZNo", &[], LND, TAIL),
    // ---- duplicates
    f("dup-label:same-scope", "ZL1:", &["ZL1:"], DUPL, LS | TAIL),
    f("dup-dim:compact", "DIM ZD%", &["DIM ZD%"], DUPD, 0),
    f("dup-dim:extended-other-type", "DIM ZD AS LONG", &["DIM ZD AS INTEGER"], DUPD, 0),
    f("dup-dim:array", "DIM ZA%(3)", &["DIM ZA%(3)"], DUPD, 0),
    f("dup-dim:after-implicit", "DIM ZV%", &["ZV% = 1"], DUPD, 0),
    f("dup-dim:of-const", "DIM ZC%", CONST_ZC, DUPD, 0),
    f("dup-dim:of-sub", "DIM ZSb", &[], DUPD, H),
    f("dup-dim:of-function", "DIM ZFn%", &[], DUPD, H),
    f("dup-const:const", "CONST ZC = 2", CONST_ZC, DUPD, 0),
    f("dup-const:of-variable", "CONST ZV = 2", &["ZV = 1"], DUPD, 0),
    f("dup-const:of-function", "CONST ZFn = 1", &[], DUPD, H),
    f("const-assign:bare", "ZC = 2", CONST_ZC, DUPD, S),
    f("const-assign:qualified", "ZC% = 2", CONST_ZC, DUPD, S),
    f("const-assign:typed-const", "ZC% = 2", &["CONST ZC% = 1"], DUPD, S),
    f("const-assign:function-name", "ZFn% = 1", &[], DUPD, S | H | MO),
    f("const-assign:sub-name", "ZSb = 1", &[], DUPD, S | H | MO),
    // ---- type mismatch in every expression position
    f("type-mismatch-x:assign-str-to-num", "ZQ% = \"abc\"", &[], TM, S),
    f("type-mismatch-x:assign-num-to-str", "ZQ$ = 5", &[], TM, S),
    f("type-mismatch-x:plus-right", "ZQ% = 1 + \"a\"", &[], TM, S),
    f("type-mismatch-x:plus-left", "ZQ% = \"a\" + 1", &[], TM, S),
    f("type-mismatch-x:negate", "ZQ% = -\"a\"", &[], TM, S),
    f("type-mismatch-x:not", "ZQ% = NOT \"a\"", &[], TM, S),
    f("type-mismatch-x:print-plus", "PRINT 1 + \"a\"", &[], TM, S),
    f("type-mismatch-x:print-times", "PRINT \"a\" * 2", &[], TM, S),
    f("type-mismatch-x:parens", "PRINT (\"a\" + 1)", &[], TM, S),
    f("type-mismatch-x:parens-2", "PRINT ((\"a\") - 1)", &[], TM, S),
    f("type-mismatch-x:builtin-arg", "ZQ% = LEN(STR$(1 + \"a\"))", &[], TM, S),
    f("type-mismatch-x:subscript-target", "ZA%(\"x\") = 1", DIM_ZA, TM, S),
    f("type-mismatch-x:subscript-read", "PRINT ZA%(\"x\")", DIM_ZA, TM, S),
    f("type-mismatch-x:element-assign", "ZA%(1) = \"s\"", DIM_ZA, TM, S),
    f("type-mismatch-x:if-condition", "IF \"a\" THEN PRINT 1", &[], TM, TAIL),
    f("type-mismatch-x:if-comparison", "IF 1 < \"a\" THEN PRINT 1", &[], TM, TAIL),
    f("type-mismatch-x:if-then-branch", "IF ZK1% = 1 THEN ZQ% = \"a\"", &[], TM, TAIL),
    f("type-mismatch-x:if-else-branch", "IF ZK1% = 2 THEN PRINT 1 ELSE ZQ% = \"a\"", &[], TM, TAIL),
    f("type-mismatch-x:and", "PRINT \"a\" AND 1", &[], TM, S),
    f("type-mismatch-x:or", "PRINT 1 OR \"b\"", &[], TM, S),
    f("type-mismatch-x:mod", "PRINT 2 MOD \"b\"", &[], TM, S),
    f("type-mismatch-x:sub-arg", "ZSb 1 + \"a\", 2", &[], TM, S | H),
    f("type-mismatch-x:fn-arg", "PRINT ZFn%(1, 2 + \"b\")", &[], TM, S | H),
    f("type-mismatch-x:print-list-last", "PRINT 1; 2; 3 + \"c\"", &[], TM, S),
    f("type-mismatch-x:comparison", "ZQ% = \"a\" < 1", &[], TM, S),
    f("type-mismatch-x:concat-number", "ZQ$ = \"a\" + 1", &[], TM, S),
    f("type-mismatch-x:string-minus", "ZQ$ = \"a\" - \"b\"", &[], TM, S),
    f("type-mismatch-x:string-divide", "PRINT \"a\" / \"b\"", &[], TM, S),
    f("type-mismatch-x:equals-in-parens", "ZQ% = (1 = \"a\")", &[], TM, S),
    f("type-mismatch-x:len-arg", "PRINT LEN(\"a\" + 1)", &[], TM, S),
    f("type-mismatch-x:negated-parens", "PRINT -(1 + \"a\")", &[], TM, S),
    f("type-mismatch-x:print-file", "PRINT #1, 1 + \"a\"", &[], TM, S),
    f("type-mismatch-x:print-using", "PRINT USING \"##\"; \"a\" + 1", &[], TM, S),
    f("type-mismatch-x:const-expr", "CONST ZC = \"a\" + 1", &[], TM, 0),
    // ---- user-defined types and fields
    f("type:undefined-type", "DIM ZR AS ZNoType", &[], TND, 0),
    f("type:undefined-type-array", "DIM ZR(3) AS ZNoType", &[], TND, 0),
    f("type:undefined-field-assign", "ZR.ZNoField = 1", DIM_ZR, END_, S | T),
    f("type:undefined-field-print", "PRINT ZR.ZNoField", DIM_ZR, END_, S | T),
    f("type:undefined-field-nested", "ZQ% = 1 + ZR.ZNoField", DIM_ZR, END_, S | T),
    f("type:record-assign-number", "ZR = 5", DIM_ZR, TM, S | T),
    f("type:field-assign-string", "ZR.ZA = \"s\"", DIM_ZR, TM, S | T),
    f("type:print-record", "PRINT ZR", DIM_ZR, TM, S | T),
    f("type:record-to-number", "ZQ% = ZR", DIM_ZR, TM, S | T),
    // ---- other checker diagnostics with one offending statement
    f("undefined-sub:args", "ZNoSub 1", &[], SND, S),
    f("undefined-sub:bare", "ZNoSub", &[], SND, S | TAIL),
    f("undefined-sub:call-args", "CALL ZNoSub(1)", &[], SND, S),
    f("undefined-sub:call-bare", "CALL ZNoSub", &[], SND, S),
    f("variable-required:input", "INPUT 5", &[], VREQ, S),
    f("variable-required:read", "READ 5", &[], VREQ, S),
    f("invalid-constant:variable", "CONST ZC = ZK1%", &[], ICON, 0),
    f("invalid-constant:function", "CONST ZC = LEN(\"a\")", &[], ICON, 0),
    f("invalid-constant:string-length", "DIM ZF AS STRING * 0", &[], ICON, 0),
    f("const-eval:division-by-zero", "CONST ZC = 1 / 0", &[], Exp::Lint(&["DivisionByZero"]), 0),
    f("const-eval:overflow", "CONST ZC% = 100000", &[], Exp::Lint(&["Overflow"]), 0),
    f("array-not-defined:assign", "ZNoArr%(1) = 5", &[], Exp::Lint(&["ArrayNotDefined"]), S),
    f("scope:exit-sub-outside", "EXIT SUB", &[], OUTS, S | MO),
    f("scope:exit-function-outside", "EXIT FUNCTION", &[], OUTS, S | MO),
    f("scope:exit-function-in-sub", "EXIT FUNCTION", &[], INS, S | SO),
    f("scope:exit-sub-in-function", "EXIT SUB", &[], INS, S | FO),
    f("scope:dim-shared-in-sub", "DIM SHARED ZW%", &[], INS, SO),
    f("scope:dim-shared-in-function", "DIM SHARED ZW%", &[], INS, FO),
    // ---- a DECLARE that disagrees with an earlier DECLARE and with the implementation (which agree with each other)
    f("declare-mismatch:sub-count", "DECLARE SUB ZSb (ZPA%)", DECL_SB, TM, NB | MO | H),
    f("declare-mismatch:sub-more", "DECLARE SUB ZSb (ZPA%, ZPB%, ZPC%)", DECL_SB, TM, NB | MO | H),
    f("declare-mismatch:sub-type", "DECLARE SUB ZSb (ZPA&, ZPB%)", DECL_SB, TM, NB | MO | H),
    f("declare-mismatch:sub-none", "DECLARE SUB ZSb", DECL_SB, TM, NB | MO | H | TAIL),
    f("declare-mismatch:fn-count", "DECLARE FUNCTION ZFn% (ZPA%, ZPB%, ZPC%)", DECL_FN, TM, NB | MO | H),
    f("declare-mismatch:fn-param-type", "DECLARE FUNCTION ZFn% (ZPA%, ZPB$)", DECL_FN, TM, NB | MO | H),
    f("declare-mismatch:fn-return", "DECLARE FUNCTION ZFn& (ZPA%, ZPB%)", DECL_FN, TM, NB | MO | H),
    // ---- NEXT naming something else than the counter of its FOR
    f("next-mismatch:other-variable", "NEXT ZK7%", &["FOR ZK6% = 1 TO 2", "  ZK5% = 0"], NWF, NB),
    f("next-mismatch:array-element", "NEXT ZA%(1)", &["DIM ZA%(5)", "FOR ZK6% = 1 TO 2", "  ZK5% = 0"], NWF, NB),
    f("next-mismatch:record-field", "NEXT ZR.ZA", &["DIM ZR AS ZT", "FOR ZK6% = 1 TO 2", "  ZK5% = 0"], NWF, NB | T),
    // ---- more checker diagnostics with one offending statement
    f("dup-const:of-sub", "CONST ZSb = 1", &[], DUPD, H),
    f("scope:resume-next-in-sub", "RESUME NEXT", &[], INS, S | SO),
    f("scope:resume-in-sub", "RESUME", &[], INS, S | SO),
    f("scope:resume-next-in-function", "RESUME NEXT", &[], INS, S | FO),
    f("scope:resume-in-function", "RESUME", &[], INS, S | FO),
    f("type-mismatch-x:for-step", "FOR ZK6% = 1 TO 3 STEP \"a\": NEXT", &[], TM, TAIL),
    f("type-mismatch-x:for-from", "FOR ZK6% = \"a\" TO 3: NEXT", &[], TM, TAIL),
    f("type-mismatch-x:for-to", "FOR ZK6% = 1 TO \"b\" STEP 2: NEXT", &[], TM, TAIL),
    f("type-mismatch-x:dim-lower-bound", "DIM ZB%(\"x\" TO 5)", &[], TM, 0),
    f("type-mismatch-x:dim-upper-bound", "DIM ZB%(1 TO \"y\")", &[], TM, 0),
    f("type-mismatch-x:assign-in-parens", "ZQ% = (ZFn%(1, \"b\"))", &[], ATM, S | H),
    f("argt-builtin-sub:locate-nested", "LOCATE LEN(5), 1", &[], ATM, S),
    f("argt-builtin-sub:color-nested", "COLOR 1 + VAL(5)", &[], ATM, S),
    // ---- constant expressions with an operand of the wrong kind (the checker evaluates them itself)
    f("type-mismatch-x:const-mod-left", "CONST ZC = \"a\" MOD 2", &[], TM, 0),
    f("type-mismatch-x:const-mod-right", "CONST ZC = 2 MOD \"b\"", &[], TM, 0),
    f("type-mismatch-x:const-and", "CONST ZC = \"a\" AND 1", &[], TM, 0),
    f("type-mismatch-x:const-or", "CONST ZC = 1 OR \"b\"", &[], TM, 0),
    f("type-mismatch-x:const-not", "CONST ZC = NOT \"a\"", &[], TM, 0),
    f("type-mismatch-x:const-negate", "CONST ZC = -\"a\"", &[], TM, 0),
    f("type-mismatch-x:const-times", "CONST ZC = \"a\" * 2", &[], TM, 0),
    f("type-mismatch-x:const-divide", "CONST ZC = \"a\" / \"b\"", &[], TM, 0),
    f("type-mismatch-x:const-compare", "CONST ZC = \"a\" < 1", &[], TM, 0),
    f("type-mismatch-x:const-nested", "CONST ZC = 1 + (2 MOD \"b\")", &[], TM, 0),
    // ---- by-reference arguments of another type that are not plain variables
    f("argt-user-sub:byref-array-element", "ZSb ZM&(1), 1", &["DIM ZM&(3)"], ATM, S | H),
    f("argt-user-fn:byref-array-element", "ZQ% = ZFn%(1, ZM#(2))", &["DIM ZM#(3)"], ATM, S | H),
    f("argt-user-sub:byref-record-field", "ZSb 1, ZR.ZS", DIM_ZR, ATM, S | H | T),
    f("undefined-sub:declared-only", "ZNoSub2 1", &["DECLARE SUB ZNoSub2 (ZP%)"], SND, S | MO),
    f("undefined-sub:declared-only-call", "CALL ZNoSub2(1)", &["DECLARE SUB ZNoSub2 (ZP%)"], SND, S | MO),
    // ---- syntax: string literal without closing quote
    f("syntax-string:print", "PRINT \"abc", &[], P, S | TAIL),
    f("syntax-string:assign", "ZQ$ = \"abc", &[], P, S | TAIL),
    f("syntax-string:print-list", "PRINT \"hello, ; ZQ$", &[], P, S | TAIL),
    f("syntax-string:concat", "ZQ$ = \"a\" + \"bc", &[], P, S | TAIL),
    f("syntax-string:builtin-arg", "PRINT LEN(\"abc)", &[], P, S | TAIL),
    f("syntax-string:sub-arg", "ZSb 1, \"x", &[], P, S | TAIL | H),
    f("syntax-string:if-branch", "IF ZK1% = 1 THEN PRINT \"yes", &[], P, TAIL),
    f("syntax-string:empty", "ZQ$ = \"", &[], P, S | TAIL),
    // ---- syntax: unbalanced parenthesis
    f("syntax-paren:open-assign", "ZQ = (1 + 2", &[], P, S),
    f("syntax-paren:open-nested", "ZQ = ((1 + 2) * 3", &[], P, S),
    f("syntax-paren:open-print", "PRINT (1", &[], P, S),
    f("syntax-paren:close-extra", "ZQ = 1 + 2)", &[], P, S),
    f("syntax-paren:open-builtin", "PRINT LEN(\"a\"", &[], P, S),
    f("syntax-paren:open-builtin-2", "ZQ = VAL(\"1\"", &[], P, S),
    f("syntax-paren:open-user-fn", "PRINT ZFn%(1, 2", &[], P, S | H),
    f("syntax-paren:open-sub-args", "ZSb (1, 2", &[], P, S | H),
    f("syntax-paren:open-double", "PRINT ((1)", &[], P, S),
    f("syntax-paren:close-only", "PRINT )", &[], P, S),
    f("syntax-paren:open-subscript", "ZA%(1 = 2", DIM_ZA, P, S),
    // ---- syntax: illegal token
    f("syntax-token:question", "ZQ = 1 ? 2", &[], P, S),
    f("syntax-token:at", "ZQ = @", &[], P, S),
    f("syntax-token:tilde", "ZQ = 1 ~ 2", &[], P, S),
    f("syntax-token:brace", "ZQ = {1}", &[], P, S),
    f("syntax-token:bracket", "ZQ = [1]", &[], P, S),
    f("syntax-token:pipe", "ZQ = 1 | 2", &[], P, S),
    f("syntax-token:backtick", "ZQ = `", &[], P, S),
    f("syntax-token:at-start", "@ = 1", &[], P, S),
    f("syntax-token:hash", "ZQ = 1 # 2", &[], P, S),
    f("syntax-token:bang", "ZQ = 1 ! 2", &[], P, S),
    f("syntax-token:tilde-end", "PRINT 1 ~", &[], P, S),
    f("syntax-token:double-question", "?? 1", &[], P, S),
    // ---- syntax: operators and operands
    f("syntax-operator:double-equals", "ZQ = = 1", &[], P, S),
    f("syntax-operator:dangling-plus", "ZQ = 1 +", &[], P, S),
    f("syntax-operator:two-operands", "ZQ = 1 2", &[], P, S),
    f("syntax-operator:stray-then", "ZQ = 1 THEN", &[], P, S),
    f("syntax-operator:two-operators", "ZQ = 1 +* 2", &[], P, S),
    f("syntax-operator:leading-times", "ZQ = * 2", &[], P, S),
    f("syntax-operator:dangling-and", "ZQ = 1 AND", &[], P, S),
    f("syntax-operator:dangling-not", "ZQ = NOT", &[], P, S),
    f("syntax-operator:print-commas-paren", "PRINT 1,, )", &[], P, S),
    f("syntax-operator:missing-equals", "ZQ% 5", &[], P, S),
    // ---- syntax: incomplete statements
    f("syntax-statement:dim", "DIM", &[], P, 0),
    f("syntax-statement:goto", "GOTO", &[], P, S),
    f("syntax-statement:gosub", "GOSUB", &[], P, S),
    f("syntax-statement:if-without-then", "IF ZK1% = 1 PRINT 2", &[], P, TAIL),
    f("syntax-statement:if-without-condition", "IF THEN PRINT 1", &[], P, TAIL),
    f("syntax-statement:const-without-value", "CONST ZC", &[], P, 0),
    f("syntax-statement:const-without-name", "CONST = 1", &[], P, 0),
    f("syntax-statement:dim-as", "DIM ZD AS", &[], P, 0),
    f("syntax-statement:dim-open", "DIM ZA%(", &[], P, 0),
    f("syntax-statement:dim-to", "DIM ZA%(1 TO)", &[], P, 0),
    f("syntax-statement:on-error-goto", "ON ERROR GOTO", &[], P, S),
    f("syntax-statement:on-error", "ON ERROR", &[], P, S),
    f("syntax-statement:resume", "RESUME 5 5", &[], P, S),
    f("syntax-statement:input", "INPUT", &[], P, S),
    f("syntax-statement:read", "READ", &[], P, S),
    f("syntax-statement:exit-for", "EXIT FOR", &[], P, S),
    f("syntax-statement:option-base", "OPTION BASE 1", &[], P, 0),
    // ---- block closers without opener
    f("syntax-closer:next", "NEXT", &[], P, NB),
    f("syntax-closer:next-named", "NEXT ZK1%", &[], P, NB),
    f("syntax-closer:wend", "WEND", &[], P, NB),
    f("syntax-closer:loop", "LOOP", &[], P, NB),
    f("syntax-closer:loop-until", "LOOP UNTIL ZK1% = 1", &[], P, NB),
    f("syntax-closer:end-if", "END IF", &[], P, NB),
    f("syntax-closer:end-select", "END SELECT", &[], P, NB),
    f("syntax-closer:case", "CASE 1", &[], P, NB),
    f("syntax-closer:else", "ELSE", &[], P, NB),
    f("syntax-closer:elseif", "ELSEIF ZK1% = 1 THEN", &[], P, NB),
    f("syntax-closer:end-sub", "END SUB", &[], P, NB | MO),
    f("syntax-closer:end-function", "END FUNCTION", &[], P, NB | MO),
    // ---- run-time faults of every kind
    f("rt-division-by-zero:assign", "ZF! = 1.5 / ZZ%", &[], Exp::Run(11), S),
    f("rt-division-by-zero:mod", "ZI% = 7 MOD ZZ%", &[], Exp::Run(11), S),
    f("rt-division-by-zero:print", "PRINT 1 / ZZ%", &[], Exp::Run(11), S),
    f("rt-division-by-zero:nested-parens", "PRINT 2 * (3 + 4 / ZZ%)", &[], Exp::Run(11), S),
    f("rt-division-by-zero:if-condition", "IF 1 / ZZ% > 0 THEN PRINT 1", &[], Exp::Run(11), TAIL),
    f("rt-division-by-zero:if-else-branch", "IF ZZ% = 1 THEN PRINT 1 ELSE ZF! = 1 / ZZ%", &[], Exp::Run(11), TAIL),
    f("rt-division-by-zero:sub-arg", "ZSb 1 / ZZ%, 2", &[], Exp::Run(11), S | H),
    f("rt-division-by-zero:fn-arg", "ZQ% = ZFn%(1, 2 MOD ZZ%)", &[], Exp::Run(11), S | H),
    f("rt-division-by-zero:builtin-arg", "ZQ% = LEN(STR$(5 / ZZ%))", &[], Exp::Run(11), S),
    f("rt-division-by-zero:print-list", "PRINT \"a\"; 1 / ZZ%; \"b\"", &[], Exp::Run(11), S),
    f("rt-overflow:literal", "ZI% = 40000", &[], Exp::Run(6), S),
    f("rt-overflow:negative-literal", "ZI% = -40000", &[], Exp::Run(6), S),
    f("rt-overflow:long-to-int", "ZI% = ZL&", SET_ZL, Exp::Run(6), S),
    f("rt-overflow:int-times", "ZI% = ZI% * ZI%", &["ZI% = 300"], Exp::Run(6), S),
    f("rt-overflow:int-plus", "ZI% = ZI% + 1", &["ZI% = 32767"], Exp::Run(6), S),
    f("rt-overflow:long-plus", "ZM& = ZM& + 1", &["ZM& = 2147483647"], Exp::Run(6), S),
    f("rt-overflow:double-to-long", "ZM& = ZD#", &["ZD# = 3000000000.0#"], Exp::Run(6), S),
    f("rt-overflow:sub-arg", "ZSb ZL& * 1, 2", SET_ZL, Exp::Run(6), S | H),
    f("rt-overflow:fn-arg", "PRINT ZFn%(1, ZL& + 0)", SET_ZL, Exp::Run(6), S | H),
    f("rt-subscript:assign", "ZA%(9) = 1", DIM_ZA2, Exp::Run(9), S),
    f("rt-subscript:print", "PRINT ZA%(9)", DIM_ZA2, Exp::Run(9), S),
    f("rt-subscript:negative-nested", "ZQ% = 1 + ZA%(-1)", DIM_ZA2, Exp::Run(9), S),
    f("rt-subscript:second-dimension", "ZB%(1, 3) = 1", &["DIM ZB%(1 TO 2, 1 TO 2)"], Exp::Run(9), S),
    f("rt-subscript:variable-index", "ZA%(ZN%) = ZN%", &["DIM ZA%(2)", "ZN% = 5"], Exp::Run(9), S),
    f("rt-subscript:string-array", "ZQ$ = ZA$(3) + \"x\"", &["DIM ZA$(2)"], Exp::Run(9), S),
    f("rt-illegal-function-call:left", "ZT$ = LEFT$(\"abc\", ZN%)", SET_ZN, Exp::Run(5), S),
    f("rt-illegal-function-call:right", "ZT$ = RIGHT$(\"abc\", ZN%)", SET_ZN, Exp::Run(5), S),
    f("rt-illegal-function-call:string", "ZT$ = STRING$(ZN%, \"a\")", SET_ZN, Exp::Run(5), S),
    f("rt-illegal-function-call:space", "ZT$ = SPACE$(ZN%)", SET_ZN, Exp::Run(5), S),
    f("rt-illegal-function-call:nested-concat", "PRINT \"a\" + LEFT$(\"abc\", ZN%)", SET_ZN, Exp::Run(5), S),
    f("rt-illegal-function-call:nested-len", "PRINT LEN(LEFT$(\"abc\", ZN%))", SET_ZN, Exp::Run(5), S),
    f("rt-illegal-function-call:mid-start-zero", "ZT$ = MID$(\"abc\", ZZ%)", &[], Exp::Run(5), S),
    f("rt-illegal-function-call:instr-start-zero", "ZI% = INSTR(ZZ%, \"abc\", \"b\")", &[], Exp::Run(5), S),
    f("rt-return-without-gosub:return", "RETURN", &[], Exp::Run(3), S),
    f("rt-resume-without-error:resume", "RESUME", &[], Exp::Run(20), S | MO),
    f("rt-resume-without-error:resume-next", "RESUME NEXT", &[], Exp::Run(20), S | MO),
    f("rt-out-of-data:read", "READ ZI%", &[], Exp::Run(4), S),
    f("rt-bad-file-number:print", "PRINT #2, \"x\"", &[], Exp::Run(52), S),
    f("rt-file-not-found:open", "OPEN \"zznofile.txt\" FOR INPUT AS #1", &[], Exp::Run(53), S),
    f("rt-file-not-found:kill", "KILL \"zznofile.txt\"", &[], Exp::Run(53), S),
    f("rt-file-not-found:name", "NAME \"zzno1\" AS \"zzno2\"", &[], Exp::Run(53), S),
];

fn group_of(kind: &str) -> &str {
    kind.split(':').next().unwrap_or(kind)
}

fn catalogue_entry(name: &str) -> Option<&'static Fault> {
    CATALOGUE.iter().find(|f| f.name == name)
}

fn exp_json(e: &Exp) -> Value {
    match e {
        Exp::Parse => json!({"stage": "parse"}),
        Exp::Lint(v) => json!({"stage": "lint", "variants": v}),
        Exp::Run(c) => json!({"stage": "run", "code": c}),
    }
}

pub fn random_layout(t: &mut Tape) -> Layout {
    Layout {
        seed: t.raw() as u64,
        case_mode: t.choose(3) as u8,
        space_mode: t.choose(2) as u8,
        blank_lines: *t.pick(&[0u32, 150, 300]),
        comments: *t.pick(&[0u32, 150, 300]),
        colons: *t.pick(&[0u32, 250, 500]),
        eol: *t.pick(&[Eol::Lf, Eol::CrLf, Eol::Cr]),
        indent: t.chance(2, 3),
        final_eol: t.chance(3, 4),
        call_kw: 0,
    }
}

/// What must be added to the faulted scope in front of the fault (at the start of the scope's body).
struct Injected {
    stmt: Stmt,
    /// statements inserted at the start of the faulted scope's body
    pre: Vec<Stmt>,
}

fn lit(v: i64) -> Expr {
    Expr::Lit(Lit::Whole(v))
}

fn neg_lit(v: i64) -> Expr {
    Expr::Un(UnOp::Neg, Box::new(lit(v)))
}

fn add_array(prog: &mut Program, scope: Option<usize>, name: &str, hi: i32) -> (usize, Stmt) {
    let vars = match scope {
        None => &mut prog.vars,
        Some(p) => &mut prog.procs[p].vars,
    };
    vars.push(VarInfo { name: name.into(), sty: STy::B(Ty::Int), bounds: vec![(0, hi)], shared: false });
    let idx = vars.len() - 1;
    (idx, Stmt::Dim(Dim { var: idx, name: name.into(), bounds: vec![(0, hi)], explicit_lower: false, sty: STy::B(Ty::Int), extended: false, shared: false, redim: 0 }))
}

/// The helper procedures of the catalogue (`ZSb`, `ZFn%`), added once.
fn add_helpers(prog: &mut Program) {
    if prog.procs.iter().any(|p| p.name == "ZSb") {
        return;
    }
    let params = || vec![Param { name: "ZPA%".into(), var: 0, sty: STy::B(Ty::Int), array: false, extended: false }, Param { name: "ZPB%".into(), var: 1, sty: STy::B(Ty::Int), array: false, extended: false }];
    let vars = || vec![VarInfo { name: "ZPA%".into(), sty: STy::B(Ty::Int), bounds: vec![], shared: false }, VarInfo { name: "ZPB%".into(), sty: STy::B(Ty::Int), bounds: vec![], shared: false }];
    let pa = LValue { name: "ZPA%".into(), var: 0, index: vec![], fields: vec![], sty: STy::B(Ty::Int) };
    let pb = LValue { name: "ZPB%".into(), var: 1, index: vec![], fields: vec![], sty: STy::B(Ty::Int) };
    prog.procs.push(Proc { name: "ZSb".into(), ret: None, params: params(), is_static: false, body: vec![Stmt::Print(vec![PrintItem::E(Expr::Load(pa.clone())), PrintItem::Semi, PrintItem::E(Expr::Load(pb.clone()))])], vars: vars(), result_var: None });
    let mut fv = vars();
    fv.push(VarInfo { name: "ZFn%".into(), sty: STy::B(Ty::Int), bounds: vec![], shared: false });
    let res = LValue { name: "ZFn%".into(), var: 2, index: vec![], fields: vec![], sty: STy::B(Ty::Int) };
    prog.procs.push(Proc { name: "ZFn%".into(), ret: Some(Ty::Int), params: params(), is_static: false, body: vec![Stmt::Assign(res, Expr::Bin(BinOp::Add, Box::new(Expr::Load(pa)), Box::new(Expr::Load(pb))))], vars: fv, result_var: Some(2) });
}

fn add_record_type(prog: &mut Program) {
    if !prog.types.iter().any(|t| t.name == "ZT") {
        prog.types.push(RecType { name: "ZT".into(), fields: vec![("ZA".into(), STy::B(Ty::Int)), ("ZS".into(), STy::Fixed(4))] });
    }
}

/// A statement of the catalogue as IR: labels stay labels (they must start their line), everything else is verbatim text.
fn text_stmt(text: &str) -> Stmt {
    if text.ends_with(':') && !text.contains(' ') { Stmt::Label(text[..text.len() - 1].to_string()) } else { Stmt::Raw(text.to_string()) }
}

fn make_fault(kind: &str, prog: &mut Program, scope: Option<usize>) -> Injected {
    let raw = |s: &str| Injected { stmt: Stmt::Raw(s.into()), pre: vec![] };
    if let Some(cf) = catalogue_entry(kind) {
        if cf.fl & H != 0 {
            add_helpers(prog);
        }
        if cf.fl & T != 0 {
            add_record_type(prog);
        }
        return Injected { stmt: text_stmt(cf.text), pre: cf.pre.iter().map(|p| text_stmt(p)).collect() };
    }
    match kind {
        "syntax-double-equals" => raw("ZQ = = 1"),
        "syntax-stray-paren" => raw("PRINT )"),
        "syntax-dangling-operator" => raw("ZQ = 1 +"),
        "syntax-bad-for" => raw("ZQ = 1 2"),
        "type-mismatch" => raw("ZQ% = \"abc\""),
        "undefined-label" => raw("GOTO ZNoSuchLabel"),
        "argument-count" => raw("ZQ% = LEN(\"a\", \"b\")"),
        "division-by-zero" => {
            let f = add_scalar(prog, scope, "ZF!", Ty::Single);
            let z = add_scalar(prog, scope, "ZZ%", Ty::Int);
            Injected { stmt: Stmt::Assign(f, Expr::Bin(BinOp::Div, Box::new(Expr::Lit(Lit::Frac { num: 3, shift: 1, double: false })), Box::new(Expr::Load(z)))), pre: vec![] }
        }
        "mod-by-zero" => {
            // in a PRINT list, nested in parentheses
            let z = add_scalar(prog, scope, "ZZ%", Ty::Int);
            let e = Expr::Bin(BinOp::Add, Box::new(lit(2)), Box::new(Expr::Paren(Box::new(Expr::Bin(BinOp::Mod, Box::new(lit(7)), Box::new(Expr::Load(z)))))));
            Injected { stmt: Stmt::Print(vec![PrintItem::E(Expr::Lit(Lit::Str("zm".into()))), PrintItem::Semi, PrintItem::E(e)]), pre: vec![] }
        }
        "overflow" => {
            let i = add_scalar(prog, scope, "ZI%", Ty::Int);
            Injected { stmt: Stmt::Assign(i, lit(40000)), pre: vec![] }
        }
        "overflow-in-expression" => {
            // INTEGER * INTEGER beyond 32767, the target is wide enough: the operator fails, not the assignment
            let j = add_scalar(prog, scope, "ZJ%", Ty::Int);
            let l = add_scalar(prog, scope, "ZW&", Ty::Long);
            Injected { stmt: Stmt::Assign(l, Expr::Bin(BinOp::Mul, Box::new(Expr::Load(j.clone())), Box::new(Expr::Load(j.clone())))), pre: vec![Stmt::Assign(j, lit(300))] }
        }
        "subscript-out-of-range" => {
            let (idx, dim) = add_array(prog, scope, "ZA%", 2);
            Injected { stmt: Stmt::Assign(LValue { name: "ZA%".into(), var: idx, index: vec![lit(9)], fields: vec![], sty: STy::B(Ty::Int) }, lit(1)), pre: vec![dim] }
        }
        "subscript-out-of-range-read" => {
            let (idx, dim) = add_array(prog, scope, "ZA%", 2);
            let q = add_scalar(prog, scope, "ZQ%", Ty::Int);
            let el = LValue { name: "ZA%".into(), var: idx, index: vec![neg_lit(1)], fields: vec![], sty: STy::B(Ty::Int) };
            Injected { stmt: Stmt::Assign(q, Expr::Bin(BinOp::Add, Box::new(lit(1)), Box::new(Expr::Load(el)))), pre: vec![dim] }
        }
        "illegal-function-call" => {
            let n = add_scalar(prog, scope, "ZN%", Ty::Int);
            let s = add_scalar(prog, scope, "ZT$", Ty::Str);
            let call = Expr::BuiltIn { name: "LEFT$".into(), args: vec![Expr::Lit(Lit::Str("abc".into())), Expr::Load(n.clone())], ty: Ty::Str };
            Injected { stmt: Stmt::Assign(s, Expr::Bin(BinOp::Add, Box::new(Expr::Lit(Lit::Str("a".into()))), Box::new(call))), pre: vec![Stmt::Assign(n, neg_lit(1))] }
        }
        other => panic!("unknown fault {}", other),
    }
}

fn is_runtime(kind: &str) -> bool {
    IR_RUNTIME.contains(&kind) || matches!(catalogue_entry(kind), Some(Fault { exp: Exp::Run(_), .. }))
}

/// The expected error family of a static fault as recorded in the inputs (`expect`), legacy kinds by name.
fn expected_static(kind: &str, expect: &Value, e: &FrontErr) -> bool {
    if let Some(stage) = expect["stage"].as_str() {
        return match (stage, e) {
            ("parse", FrontErr::Parse { .. }) => true,
            ("lint", FrontErr::Lint { variant, .. }) => expect["variants"].as_array().map(|a| a.iter().any(|v| v.as_str() == Some(variant.as_str()))).unwrap_or(false),
            _ => false,
        };
    }
    match (kind, e) {
        (k, FrontErr::Parse { .. }) if k.starts_with("syntax") => true,
        ("type-mismatch", FrontErr::Lint { variant, .. }) => variant == "TypeMismatch" || variant == "ArgumentTypeMismatch",
        ("undefined-label", FrontErr::Lint { variant, .. }) => variant == "LabelNotDefined",
        ("argument-count", FrontErr::Lint { variant, .. }) => variant == "ArgumentCountMismatch",
        _ => false,
    }
}

// ------------------------------------------------------------------------------------------------
// Line-ending conventions (the printer renders with LF; the endings are applied afterwards, line by line)
// ------------------------------------------------------------------------------------------------

#[derive(Clone, Copy, Debug, PartialEq, Eq)]
pub enum EolMode {
    Lf,
    CrLf,
    Cr,
    /// LF, CRLF and CR in rotation, starting with the given offset
    Mixed(u8),
    /// LF, CRLF and CR chosen pseudo-randomly per line
    Random(u64),
}

impl EolMode {
    fn name(&self) -> String {
        match self {
            EolMode::Lf => "Lf".into(),
            EolMode::CrLf => "CrLf".into(),
            EolMode::Cr => "Cr".into(),
            EolMode::Mixed(k) => format!("Mixed{}", k),
            EolMode::Random(_) => "Mixed".into(),
        }
    }
}

/// Finalizer over `hash64` (FNV-1a): its low bits alone are too regular for `% n` over small tuples.
fn mix(mut h: u64) -> u64 {
    h ^= h >> 33;
    h = h.wrapping_mul(0xff51afd7ed558ccd);
    h ^= h >> 33;
    h = h.wrapping_mul(0xc4ceb9fe1a85ec53);
    h ^ (h >> 33)
}

/// Joins lines with the endings of the mode. Every ending ends exactly one row: a CR is never followed directly by an LF
/// that is meant as a row of its own (an empty line after a CR-terminated line is not terminated by a bare LF).
pub fn join_lines(lines: &[String], mode: EolMode, final_eol: bool) -> String {
    let mut out = String::new();
    let mut prev_cr = false;
    for (i, l) in lines.iter().enumerate() {
        out.push_str(l);
        if i + 1 == lines.len() && !final_eol {
            break;
        }
        let mut e = match mode {
            EolMode::Lf => "\n",
            EolMode::CrLf => "\r\n",
            EolMode::Cr => "\r",
            EolMode::Mixed(k) => ["\n", "\r\n", "\r"][(i + k as usize) % 3],
            EolMode::Random(s) => ["\n", "\r\n", "\r"][(mix(hash64(&(s, i as u64))) % 3) as usize],
        };
        if e == "\n" && l.is_empty() && prev_cr {
            e = "\r";
        }
        out.push_str(e);
        prev_cr = e == "\r";
    }
    out
}

/// Re-terminates a text rendered with LF endings.
fn with_endings(text_lf: &str, mode: EolMode) -> String {
    let final_eol = text_lf.ends_with('\n');
    let body = if final_eol { &text_lf[..text_lf.len() - 1] } else { text_lf };
    let lines: Vec<String> = body.split('\n').map(|s| s.to_string()).collect();
    join_lines(&lines, mode, final_eol)
}

struct Built {
    r: Rendered,
    fault_path: String,
    depth: usize,
    in_proc: bool,
    prog: Program,
    eol: EolMode,
    expect: Value,
}

fn shift_path(path: &str, by: usize) -> String {
    let mut parts: Vec<String> = path.split('/').map(|s| s.to_string()).collect();
    let k: usize = parts[1].parse().unwrap();
    parts[1] = (k + by).to_string();
    parts.join("/")
}

enum BuildOut {
    Ok(Built, String, Layout),
    Discard(&'static str),
}

fn build(tape: &[u32], with_calls: bool) -> BuildOut {
    let mut t = Tape::new(tape);
    // fault family first: the original static faults, run-time faults (IR), the catalogue's static faults (two shares)
    let statics: Vec<&'static Fault> = CATALOGUE.iter().filter(|f| !matches!(f.exp, Exp::Run(_))).collect();
    let kind: &'static str = match t.choose(4) {
        0 => LEGACY_STATIC[t.choose(LEGACY_STATIC.len())],
        1 => IR_RUNTIME[t.choose(IR_RUNTIME.len())],
        _ => statics[t.choose(statics.len())].name,
    };
    let mut lay = random_layout(&mut t);
    let mut eol = match lay.eol {
        Eol::Lf => EolMode::Lf,
        Eol::CrLf => EolMode::CrLf,
        Eol::Cr => EolMode::Cr,
    };
    if t.chance(1, 4) {
        eol = EolMode::Random(lay.seed);
    }
    lay.eol = Eol::Lf;
    let cat = catalogue_entry(kind);
    let fl = cat.map(|f| f.fl).unwrap_or(S);
    if fl & TAIL != 0 {
        // nothing may follow the statement on its line
        lay.colons = 0;
        lay.comments = 0;
    }
    let which = t.raw();
    let used = t.used();
    let mut cfg = GenCfg::core(14, 3);
    cfg.errors = false;
    cfg.data = false;
    let rest = &tape[used.min(tape.len())..];
    let mut prog = if with_calls {
        cfg.procs = true;
        cfg.deftypes = false;
        cfg.max_stmts = 8;
        Gen::new(rest, &cfg).calls_program()
    } else {
        Gen::new(rest, &cfg).core_program()
    };
    let n = count_slots(&prog);
    if n == 0 {
        return BuildOut::Discard("no replaceable statement");
    }
    let target = ((which as u64 * n as u64) >> 32) as usize;
    let mut injected_pre: Vec<Stmt> = vec![];
    let Some((path, depth, scope)) = replace_slot(&mut prog, target, &mut |p, scope| {
        let inj = make_fault(kind, p, scope);
        injected_pre = inj.pre;
        inj.stmt
    }) else {
        return BuildOut::Discard("no replaceable statement");
    };
    // placement rules of the fault
    let top_level = path.split('/').count() == 2;
    if fl & NB != 0 && !top_level {
        return BuildOut::Discard("stray block closer: slot inside a block");
    }
    let scope_is_fn = scope.map(|p| prog.procs[p].ret.is_some());
    if (fl & MO != 0 && scope.is_some()) || (fl & SO != 0 && scope_is_fn != Some(false)) || (fl & FO != 0 && scope_is_fn != Some(true)) {
        return BuildOut::Discard("fault kind not defined in the slot's scope");
    }
    let mut fault_path = path;
    if !injected_pre.is_empty() {
        // declarations / values at the start of the scope: shifts the first path component index
        let npre = injected_pre.len();
        let body: &mut Vec<Stmt> = match scope {
            None => &mut prog.main,
            Some(p) => &mut prog.procs[p].body,
        };
        for (k, st) in injected_pre.into_iter().enumerate() {
            body.insert(k, st);
        }
        fault_path = shift_path(&fault_path, npre);
    }
    if with_calls && is_runtime(kind) && (which >> 3) % 3 == 0 {
        // earlier in the faulted scope a built-in fails and the error is handled (RESUME NEXT at module level); the handler is
        // switched off again: the call sites reported for the injected fault must still be complete
        let zn = add_scalar(&mut prog, scope, "ZHN%", Ty::Int);
        let zt = add_scalar(&mut prog, scope, "ZHT$", Ty::Str);
        let pre = vec![
            Stmt::OnErrorGoto(Some("ZH1".into())),
            Stmt::Assign(zn.clone(), Expr::Un(UnOp::Neg, Box::new(Expr::Lit(Lit::Whole(1))))),
            Stmt::Assign(zt, Expr::BuiltIn { name: "LEFT$".into(), args: vec![Expr::Lit(Lit::Str("abc".into())), Expr::Load(zn)], ty: Ty::Str }),
            Stmt::OnErrorGoto(None),
        ];
        let npre = pre.len();
        let body: &mut Vec<Stmt> = match scope {
            None => &mut prog.main,
            Some(p) => &mut prog.procs[p].body,
        };
        for (k, st) in pre.into_iter().enumerate() {
            body.insert(k, st);
        }
        fault_path = shift_path(&fault_path, npre);
        prog.main.push(Stmt::End);
        prog.main.push(Stmt::Label("ZH1".into()));
        prog.main.push(Stmt::Resume(ResumeKind::Next));
    } else if with_calls && is_runtime(kind) && (which >> 3) % 3 == 1 {
        // at the start of the main module a SUB is called in which a built-in fails; the handler leaves with RESUME label (the
        // call is abandoned) and is switched off again: the call sites reported for the injected fault must not list the
        // abandoned call
        let zn = VarInfo { name: "ZHN%".into(), sty: STy::B(Ty::Int), bounds: vec![], shared: false };
        let zt = VarInfo { name: "ZHT$".into(), sty: STy::B(Ty::Str), bounds: vec![], shared: false };
        let ln = LValue { name: "ZHN%".into(), var: 0, index: vec![], fields: vec![], sty: STy::B(Ty::Int) };
        let lt = LValue { name: "ZHT$".into(), var: 1, index: vec![], fields: vec![], sty: STy::B(Ty::Str) };
        let body = vec![
            Stmt::Assign(ln.clone(), Expr::Un(UnOp::Neg, Box::new(Expr::Lit(Lit::Whole(1))))),
            Stmt::Assign(lt, Expr::BuiltIn { name: "LEFT$".into(), args: vec![Expr::Lit(Lit::Str("abc".into())), Expr::Load(ln)], ty: Ty::Str }),
        ];
        let body = if (which >> 5) % 2 == 0 {
            body
        } else {
            // two calls deep: the failing statements sit in a second SUB called by the first
            prog.procs.push(Proc { name: "ZHS2".into(), ret: None, params: vec![], is_static: false, body, vars: vec![zn.clone(), zt.clone()], result_var: None });
            vec![Stmt::CallSub(prog.procs.len() - 1, vec![])]
        };
        prog.procs.push(Proc { name: "ZHS".into(), ret: None, params: vec![], is_static: false, body, vars: vec![zn, zt], result_var: None });
        let callee = prog.procs.len() - 1;
        let pre = vec![Stmt::OnErrorGoto(Some("ZH2".into())), Stmt::CallSub(callee, vec![]), Stmt::Label("ZH3".into()), Stmt::OnErrorGoto(None)];
        let npre = pre.len();
        for (k, st) in pre.into_iter().enumerate() {
            prog.main.insert(k, st);
        }
        if scope.is_none() {
            fault_path = shift_path(&fault_path, npre);
        }
        prog.main.push(Stmt::End);
        prog.main.push(Stmt::Label("ZH2".into()));
        prog.main.push(Stmt::ResumeLabel("ZH3".into()));
    }
    let mut r = render(&prog, &lay);
    r.text = with_endings(&r.text, eol);
    let expect = cat.map(|f| exp_json(&f.exp)).unwrap_or(Value::Null);
    BuildOut::Ok(Built { r, fault_path, depth, in_proc: scope.is_some(), prog, eol, expect }, kind.to_string(), lay)
}

fn site_json(r: &Rendered, path: &str) -> Value {
    match r.sites.get(path) {
        Some(s) => json!({"row": s.row, "col_start": s.col_start, "col_end": s.col_end}),
        None => Value::Null,
    }
}

fn check_static(text: &str, kind: &str, site: &Value, inputs: Value) -> Result<(), Violation> {
    let row = site["row"].as_u64().unwrap_or(0) as u32;
    let (c0, c1) = (site["col_start"].as_u64().unwrap_or(0) as u32, site["col_end"].as_u64().unwrap_or(0) as u32);
    let g = group_of(kind);
    match impl_run::front(text) {
        Ok(_) => Err(Violation::new(format!("c11-accepted:{}", g), "a program with an injected static fault was accepted", inputs).exp_obs(json!({"rejected at": site}), "accepted")),
        Err(FrontErr::Panic { stage, info }) => Err(Violation::new(format!("panic:{}:{}", stage, info.sig()), "the faulted program made the parser/checker panic", inputs)),
        Err(e) => {
            if !expected_static(kind, &inputs["expect"], &e) {
                return Err(Violation::new(format!("c11-error-family:{}:{}", g, e.class()), "the injected fault is reported as an error of another family", inputs).exp_obs(kind, e.to_json()));
            }
            let (r, c) = e.pos().unwrap();
            if r != row {
                return Err(Violation::new(format!("c11-row:{}", g), format!("{} reported on row {} instead of row {}", kind, r, row), inputs).exp_obs(site.clone(), e.to_json()));
            }
            // a syntax error may be found at the first character that follows the statement: one past its end, or - when blanks
            // separate the statement from a comment / colon - where the next token starts
            let slack = if matches!(e, FrontErr::Parse { .. }) { blanks_after(text, row, c1) } else { 0 };
            if c < c0 || c > c1 + 1 + slack {
                return Err(Violation::new(format!("c11-col:{}", g), format!("{} reported at column {} outside the statement's columns {}..{}", kind, c, c0, c1), inputs).exp_obs(site.clone(), e.to_json()));
            }
            Ok(())
        }
    }
}

/// Number of blanks / tabs that follow column `col` on row `row` (rows end at LF, CRLF or a bare CR).
fn blanks_after(text: &str, row: u32, col: u32) -> u32 {
    let chars: Vec<char> = text.chars().collect();
    let (mut r, mut c, mut i, mut n) = (1u32, 1u32, 0usize, 0u32);
    while i < chars.len() {
        let ch = chars[i];
        if ch == '\n' || (ch == '\r' && chars.get(i + 1) != Some(&'\n')) {
            if r == row {
                break;
            }
            r += 1;
            c = 1;
        } else if ch != '\r' {
            if r == row && c > col {
                if ch == ' ' || ch == '\t' {
                    n += 1;
                } else {
                    break;
                }
            }
            c += 1;
        }
        i += 1;
    }
    n
}

fn check_runtime(text: &str, kind: &str, code: i32, sites: &[Value], call_rows: &[u32], triggers: &[String], inputs: Value) -> Result<(), Violation> {
    let attributed = |d: String| triggers.first().cloned().unwrap_or(d);
    let g = group_of(kind);
    let out = match impl_run::run_src(text, &RunOpts::budget(3_000_000)) {
        Err(e) => return Err(Violation::new(attributed(format!("c11-rejected:{}:{}", g, e.class())), "a well-formed program with an injected run-time fault was rejected", inputs).exp_obs("accepted", e.to_json())),
        Ok(o) => o,
    };
    match &out.end {
        End::Err { code: Some(c), pos, .. } if *c == code => {
            let Some((r, col)) = pos.first().copied() else { return Err(Violation::new(format!("c11-no-position:{}", g), "run-time error without position", inputs)) };
            let ok = sites.iter().any(|s| s["row"].as_u64() == Some(r as u64) && (col as u64) >= s["col_start"].as_u64().unwrap_or(0) && (col as u64) <= s["col_end"].as_u64().unwrap_or(0) + 1);
            if !ok {
                let which = if sites.iter().any(|s| s["row"].as_u64() == Some(r as u64)) { "col" } else { "row" };
                return Err(Violation::new(attributed(format!("c11-{}:{}", which, g)), format!("{} reported at row {} col {} instead of the faulted statement", kind, r, col), inputs).exp_obs(json!(sites), out.end.to_json()));
            }
            let got: Vec<u32> = pos.iter().skip(1).map(|p| p.0).collect();
            if got != call_rows {
                return Err(Violation::new(attributed(format!("c11-call-sites:{}", g)), "the rows of the active call sites (innermost first, ending in the main module) differ", inputs).exp_obs(json!(call_rows), json!(got)));
            }
            Ok(())
        }
        other => Err(Violation::new(attributed(format!("c11-wrong-end:{}", g)), format!("expected run-time error {} at the faulted statement, observed {}", code, other.short()), inputs).exp_obs(json!({"code": code, "sites": sites}), other.to_json())),
    }
}

fn one_case(sh: &mut Shard, tape: &[u32], with_calls: bool) -> Result<(), Violation> {
    let (b, kind, lay) = match build(tape, with_calls) {
        BuildOut::Ok(b, k, l) => (b, k, l),
        BuildOut::Discard(why) => {
            sh.eval();
            sh.discard(why);
            return Ok(());
        }
    };
    sh.eval();
    let site = site_json(&b.r, &b.fault_path);
    if site.is_null() {
        panic!("c11: fault path {} has no site", b.fault_path);
    }
    let row = site["row"].as_u64().unwrap_or(0);
    let decorated = lay.blank_lines > 0 || lay.comments > 0 || lay.colons > 0 || b.eol != EolMode::Lf || b.depth > 0 || b.in_proc;
    sh.journal(&b.r.text);
    let base_inputs = json!({"program": b.r.text, "fault": kind, "fault_site": site, "layout": format!("{} -> {}", lay.describe(), b.eol.name()), "expect": b.expect});
    if !is_runtime(&kind) {
        sh.class(&format!("fault:{}", group_of(&kind)));
        sh.class(&format!("eol:{}", b.eol.name()));
        if b.r.sites.get(&b.fault_path).map(|s| s.after_colon).unwrap_or(false) {
            sh.class("fault-after-colon-or-decoration");
        }
        if row >= 3 && decorated {
            sh.nontrivial(hash64(&(&b.r.text, &kind)));
        }
        sh.sample_sparse(307, || base_inputs.clone());
        let mut inputs = base_inputs.clone();
        inputs["kind"] = json!("static");
        return check_static(&b.r.text, &kind, &site, inputs);
    }
    // run-time fault: the reference semantics says where (and through which call sites) it is raised
    let res = match refsem::run(&b.prog, 100_000) {
        Outcome::Undetermined(why, _) => {
            sh.discard(&format!("undetermined: {}", why));
            return Ok(());
        }
        Outcome::Determined(r) => r,
    };
    let RefEnd::Err(e) = &res.end else {
        sh.discard("fault not reached (program ends normally)");
        return Ok(());
    };
    sh.class(&format!("fault:{}", kind));
    sh.class(&format!("eol:{}", b.eol.name()));
    sh.class(&format!("call-depth:{}", e.call_sites.len()));
    if b.prog.main.iter().any(|s| matches!(s, Stmt::Label(l) if l == "ZH1")) {
        sh.class("after-handled-builtin-error:resume-next");
    }
    if b.prog.main.iter().any(|s| matches!(s, Stmt::Label(l) if l == "ZH2")) {
        sh.class("after-handled-error-in-sub:resume-label");
    }
    let sites: Vec<Value> = e.paths.iter().map(|p| site_json(&b.r, p)).filter(|v| !v.is_null()).collect();
    let call_rows: Vec<u32> = e.call_sites.iter().filter_map(|p| b.r.sites.get(p)).map(|s| s.row).collect();
    if call_rows.len() != e.call_sites.len() {
        panic!("c11: call site without site entry");
    }
    let frow = sites.first().and_then(|s| s["row"].as_u64()).unwrap_or(0);
    if frow >= 3 && (decorated || !call_rows.is_empty()) {
        sh.nontrivial(hash64(&(&b.r.text, &kind)));
    }
    let triggers: Vec<String> = res.triggers.iter().map(|s| s.to_string()).collect();
    let mut inputs = base_inputs;
    inputs["kind"] = json!("runtime");
    inputs["code"] = json!(e.code);
    inputs["sites"] = json!(sites);
    inputs["call_rows"] = json!(call_rows);
    inputs["triggers"] = json!(triggers);
    sh.sample_sparse(307, || inputs.clone());
    check_runtime(&b.r.text, &kind, e.code, &sites, &call_rows, &triggers, inputs)
}

// ------------------------------------------------------------------------------------------------
// The fault x placement x line-ending matrix: small programs written line by line
// ------------------------------------------------------------------------------------------------

#[derive(Clone, Copy, Debug, PartialEq, Eq)]
enum Ctx {
    /// a line of its own in the main module
    Main,
    /// inside one block of the main module
    Block1,
    /// inside three nested blocks of the main module
    Block3,
    /// `statement: FAULT`
    AfterColon,
    /// `FAULT: statement`
    BeforeColon,
    /// `IF 1 THEN FAULT`
    IfThen,
    /// `IF 0 THEN statement ELSE FAULT`
    IfElse,
    /// in a SUB called from the main module
    Sub,
    /// in a FUNCTION called from an expression of the main module
    Fn,
    /// main -> FUNCTION (in a nested expression) -> SUB (argument expression) -> FUNCTION (inside a loop), fault inside a block
    Deep,
}

const CTXS: [Ctx; 10] = [Ctx::Main, Ctx::Block1, Ctx::Block3, Ctx::AfterColon, Ctx::BeforeColon, Ctx::IfThen, Ctx::IfElse, Ctx::Sub, Ctx::Fn, Ctx::Deep];

fn ctx_allowed(f: &Fault, c: Ctx) -> bool {
    let fl = f.fl;
    let in_proc = matches!(c, Ctx::Sub | Ctx::Fn | Ctx::Deep);
    if fl & MO != 0 && in_proc {
        return false;
    }
    if fl & SO != 0 && c != Ctx::Sub {
        return false;
    }
    if fl & FO != 0 && c != Ctx::Fn && c != Ctx::Deep {
        return false;
    }
    match c {
        Ctx::Main | Ctx::Sub | Ctx::Fn => true,
        Ctx::Block1 | Ctx::Block3 | Ctx::Deep => fl & NB == 0,
        Ctx::AfterColon => fl & LS == 0,
        Ctx::BeforeColon => fl & S != 0 && fl & TAIL == 0,
        Ctx::IfThen | Ctx::IfElse => fl & S != 0,
    }
}

#[derive(Clone, Copy, Debug, PartialEq, Eq)]
enum Pos {
    /// as early in the file as the fault allows (row 1 when nothing must precede it)
    First,
    Middle,
    /// as late in the file as the context allows (the last row for the main-module contexts without a block)
    Last,
}

#[derive(Clone, Copy, PartialEq)]
enum Mark {
    None,
    /// the fault statement starts at this 0-based character index of the line and has this many characters
    Fault(usize, usize),
    /// a call site of the chain that leads to the fault; larger = further in
    Call(u32),
}

type Seg = Vec<(String, Mark)>;

fn plain(seg: &mut Seg, s: &str) {
    seg.push((s.to_string(), Mark::None));
}

const BLOCKS: [(&[&str], &[&str]); 6] = [
    (&["FOR ZK6% = 1 TO 2"], &["NEXT"]),
    (&["IF 1 THEN"], &["END IF"]),
    (&["WHILE ZK7% = 0"], &["WEND"]),
    (&["DO"], &["LOOP UNTIL 1"]),
    (&["SELECT CASE 1", "CASE 1"], &["END SELECT"]),
    (&["IF 0 THEN", "  ZK5% = 0", "ELSE"], &["END IF"]),
];

/// The fault in its syntactic form: lines of one scope, the fault line marked.
fn construct(f: &Fault, form: Ctx, indent: &str, variant: u32) -> Seg {
    let mut seg: Seg = vec![];
    let n = f.text.chars().count();
    let fault_line = |prefix: String, suffix: &str| -> (String, Mark) {
        let at = prefix.chars().count();
        (format!("{}{}{}", prefix, f.text, suffix), Mark::Fault(at, n))
    };
    let depth = match form {
        Ctx::Block1 | Ctx::Deep => 1,
        Ctx::Block3 => 3,
        _ => 0,
    };
    let mut closers: Vec<String> = vec![];
    let mut ind = indent.to_string();
    for d in 0..depth {
        let (open, close) = BLOCKS[(variant as usize + d * 5) % BLOCKS.len()];
        for o in open {
            seg.push((format!("{}{}", ind, o), Mark::None));
        }
        for c in close {
            closers.push(format!("{}{}", ind, c));
        }
        ind.push_str("  ");
    }
    // labels start in column 1
    let own_indent = if f.fl & LS != 0 { String::new() } else { ind.clone() };
    match form {
        // (now and then with characters above 127 to the left of the fault: a column counts characters)
        Ctx::AfterColon if variant % 3 == 1 => seg.push(fault_line(format!("{}ZK5$ = \"\u{e4}\u{f6}\u{fc} \u{e9}\": ", ind), "")),
        Ctx::AfterColon => seg.push(fault_line(format!("{}ZK5% = 5: ", ind), "")),
        Ctx::BeforeColon => seg.push(fault_line(ind.clone(), ": ZK5% = 5")),
        // a syntax error in a branch may be found where the branch begins (right after THEN / ELSE): the statement is the IF line
        Ctx::IfThen | Ctx::IfElse => {
            let head = if form == Ctx::IfThen { "IF 1 THEN " } else { "IF 0 THEN ZK5% = 0 ELSE " };
            let (l, m) = fault_line(format!("{}{}", ind, head), "");
            let m = match (m, f.exp) {
                (Mark::Fault(at, n), Exp::Parse) => Mark::Fault(ind.chars().count(), at + n - ind.chars().count()),
                (m, _) => m,
            };
            seg.push((l, m));
        }
        _ => seg.push(fault_line(own_indent, "")),
    }
    for c in closers.into_iter().rev() {
        seg.push((c, Mark::None));
    }
    seg
}

/// The statements of the fault's scope: fillers, the fault's declarations, the fault construct, fillers.
fn scope_lines(f: &Fault, form: Ctx, pos: Pos, indent: &str, variant: u32) -> Seg {
    let mut seg: Seg = vec![];
    if pos != Pos::First {
        plain(&mut seg, &format!("{}ZK1% = 1", indent));
        if variant % 2 == 0 {
            plain(&mut seg, &format!("{}' a remark with a \"quoted\" word", indent));
        }
        if variant % 3 != 0 {
            plain(&mut seg, "");
        }
        plain(&mut seg, &format!("{}PRINT \"f\"; ZK1%: ZK2% = 2", indent));
    }
    for p in f.pre {
        let own = if p.ends_with(':') { "" } else { indent };
        plain(&mut seg, &format!("{}{}", own, p));
    }
    seg.extend(construct(f, form, indent, variant));
    if pos != Pos::Last {
        plain(&mut seg, &format!("{}ZK3% = 3", indent));
        plain(&mut seg, &format!("{}PRINT \"g\"; ZK3%", indent));
    }
    seg
}

pub struct LineProgram {
    pub lines: Vec<String>,
    pub row: u32,
    pub col_start: u32,
    pub col_end: u32,
    /// rows of the active call sites, innermost first
    pub call_rows: Vec<u32>,
}

fn line_program(f: &Fault, ctx: Ctx, pos: Pos, variant: u32) -> LineProgram {
    let mut declares: Seg = vec![];
    let mut types: Seg = vec![];
    let mut helpers: Seg = vec![];
    if f.fl & T != 0 {
        for l in ["TYPE ZT", "  ZA AS INTEGER", "  ZS AS STRING * 4", "END TYPE"] {
            plain(&mut types, l);
        }
    }
    if f.fl & H != 0 {
        for l in ["SUB ZSb (ZPA%, ZPB%)", "  PRINT ZPA%; ZPB%", "END SUB", "FUNCTION ZFn% (ZPA%, ZPB%)", "  ZFn% = ZPA% + ZPB%", "END FUNCTION"] {
            plain(&mut helpers, l);
        }
        plain(&mut declares, "DECLARE SUB ZSb (ZPA%, ZPB%)");
        plain(&mut declares, "DECLARE FUNCTION ZFn% (ZPA%, ZPB%)");
    }
    let in_proc = matches!(ctx, Ctx::Sub | Ctx::Fn | Ctx::Deep);
    let mut main: Seg = vec![];
    // procedures of the call chain, outermost first
    let mut chain: Vec<Seg> = vec![];
    if !in_proc {
        main = scope_lines(f, ctx, pos, "", variant);
    } else {
        plain(&mut main, "ZK1% = 1");
        if variant % 2 == 1 {
            plain(&mut main, "PRINT \"m\"; ZK1% ' before the call");
        }
        match ctx {
            Ctx::Sub => {
                let call = ["ZCa 7", "CALL ZCa(7)", "IF 1 THEN ZCa 7", "ZK5% = 5: ZCa 7"][variant as usize % 4];
                main.push((call.to_string(), Mark::Call(0)));
                plain(&mut declares, "DECLARE SUB ZCa (ZP1%)");
                let mut p: Seg = vec![];
                plain(&mut p, "SUB ZCa (ZP1%)");
                p.extend(scope_lines(f, Ctx::Main, pos, "  ", variant));
                plain(&mut p, "END SUB");
                chain.push(p);
            }
            Ctx::Fn => {
                let call = ["ZK5% = 1 + ZCf%(2) * 2", "PRINT LEN(STR$(ZCf%(2)))", "IF ZCf%(2) > 0 THEN PRINT 1", "PRINT \"r\"; ZCf%(ZCf%(2))"][variant as usize % 4];
                main.push((call.to_string(), Mark::Call(0)));
                plain(&mut declares, "DECLARE FUNCTION ZCf% (ZP1%)");
                let mut p: Seg = vec![];
                plain(&mut p, "FUNCTION ZCf% (ZP1%)");
                if pos == Pos::Last {
                    plain(&mut p, "  ZCf% = ZP1%");
                }
                p.extend(scope_lines(f, Ctx::Main, pos, "  ", variant));
                if pos != Pos::Last {
                    plain(&mut p, "  ZCf% = ZP1%");
                }
                plain(&mut p, "END FUNCTION");
                chain.push(p);
            }
            _ => {
                let call = ["PRINT LEN(STR$(ZCf%(2))); ZK1%", "IF 1 THEN PRINT ZCf%(2)", "ZK5% = (ZCf%(2) + 1) * 2"][variant as usize % 3];
                main.push((call.to_string(), Mark::Call(0)));
                plain(&mut declares, "DECLARE FUNCTION ZCf% (ZP1%)");
                plain(&mut declares, "DECLARE SUB ZCb (ZP1%, ZP2$)");
                plain(&mut declares, "DECLARE FUNCTION ZCg% (ZP1%)");
                let mut p1: Seg = vec![];
                plain(&mut p1, "FUNCTION ZCf% (ZP1%)");
                plain(&mut p1, "  PRINT \"in f\"");
                p1.push(("  ZCb ZP1% + 1, \"x\"".to_string(), Mark::Call(1)));
                plain(&mut p1, "  ZCf% = ZP1%");
                plain(&mut p1, "END FUNCTION");
                let mut p2: Seg = vec![];
                plain(&mut p2, "SUB ZCb (ZP1%, ZP2$)");
                plain(&mut p2, "  FOR ZK6% = 1 TO 2");
                p2.push(("    ZK8% = ZCg%(ZK6%) + 1".to_string(), Mark::Call(2)));
                plain(&mut p2, "  NEXT");
                plain(&mut p2, "END SUB");
                let mut p3: Seg = vec![];
                plain(&mut p3, "FUNCTION ZCg% (ZP1%)");
                if pos == Pos::Last {
                    plain(&mut p3, "  ZCg% = ZP1%");
                }
                p3.extend(scope_lines(f, Ctx::Deep, pos, "  ", variant));
                if pos != Pos::Last {
                    plain(&mut p3, "  ZCg% = ZP1%");
                }
                plain(&mut p3, "END FUNCTION");
                chain.push(p1);
                chain.push(p2);
                chain.push(p3);
            }
        }
        plain(&mut main, "ZK9% = 9");
    }
    // file order
    let mut all: Seg = vec![];
    if pos == Pos::Middle && variant % 2 == 0 {
        all.extend(declares);
    }
    all.extend(types);
    if !in_proc {
        if pos == Pos::Last {
            all.extend(helpers);
            all.extend(main);
        } else {
            all.extend(main);
            all.extend(helpers);
        }
    } else {
        match pos {
            Pos::First => {
                // the faulted procedure first, its callers after it, the main module after all of them
                for p in chain.into_iter().rev() {
                    all.extend(p);
                }
                all.extend(main);
                all.extend(helpers);
            }
            Pos::Middle => {
                if variant % 4 < 2 {
                    all.extend(main);
                    for p in chain {
                        all.extend(p);
                    }
                    all.extend(helpers);
                } else {
                    all.extend(helpers);
                    for p in chain {
                        all.extend(p);
                    }
                    all.extend(main);
                }
            }
            Pos::Last => {
                all.extend(main);
                all.extend(helpers);
                for p in chain {
                    all.extend(p);
                }
            }
        }
    }
    let mut row = 0;
    let mut cols = (0, 0);
    let mut calls: Vec<(u32, u32)> = vec![];
    for (i, (_, m)) in all.iter().enumerate() {
        match m {
            Mark::Fault(at, n) => {
                row = i as u32 + 1;
                cols = (*at as u32 + 1, (*at + *n) as u32);
            }
            Mark::Call(k) => calls.push((*k, i as u32 + 1)),
            Mark::None => {}
        }
    }
    calls.sort_by(|a, b| b.0.cmp(&a.0));
    LineProgram { lines: all.into_iter().map(|(l, _)| l).collect(), row, col_start: cols.0, col_end: cols.1, call_rows: calls.into_iter().map(|c| c.1).collect() }
}

const EOLS: [EolMode; 6] = [EolMode::Lf, EolMode::CrLf, EolMode::Cr, EolMode::Mixed(0), EolMode::Mixed(1), EolMode::Mixed(2)];
/// (position, final line end)
const PLACES: [(Pos, bool); 6] = [(Pos::First, true), (Pos::Middle, true), (Pos::Last, true), (Pos::Last, false), (Pos::First, false), (Pos::Middle, false)];

fn matrix_case(sh: &mut Shard, f: &Fault, ctx: Ctx, pos: Pos, final_eol: bool, eol: EolMode, variant: u32) -> Result<(), Violation> {
    let lp = line_program(f, ctx, pos, variant);
    let text = join_lines(&lp.lines, eol, final_eol);
    sh.eval();
    sh.class(&format!("matrix:fault:{}", group_of(f.name)));
    sh.class(&format!("matrix:eol:{}", eol.name()));
    sh.class(&format!("matrix:ctx:{:?}", ctx));
    sh.class(&format!("matrix:place:{:?}{}", pos, if final_eol { "" } else { "-no-final-eol" }));
    if lp.row == 1 {
        sh.class("matrix:fault-on-row-1");
    }
    if lp.row as usize == lp.lines.len() {
        sh.class(if final_eol { "matrix:fault-on-last-row" } else { "matrix:fault-on-last-row-no-final-eol" });
    }
    if !(ctx == Ctx::Main && eol == EolMode::Lf && pos == Pos::First) {
        sh.nontrivial(hash64(&(&text, f.name)));
    }
    sh.journal(&text);
    let site = json!({"row": lp.row, "col_start": lp.col_start, "col_end": lp.col_end});
    let mut inputs = json!({"program": text, "fault": f.name, "fault_site": site, "layout": format!("matrix {:?} {:?} final_eol={} {} variant={}", ctx, pos, final_eol, eol.name(), variant), "expect": exp_json(&f.exp)});
    match f.exp {
        Exp::Run(code) => {
            sh.class(&format!("matrix:call-depth:{}", lp.call_rows.len()));
            inputs["kind"] = json!("runtime");
            inputs["code"] = json!(code);
            inputs["sites"] = json!([site]);
            inputs["call_rows"] = json!(lp.call_rows);
            inputs["triggers"] = json!([]);
            sh.sample_sparse(211, || inputs.clone());
            check_runtime(&text, f.name, code, &[site], &lp.call_rows, &[], inputs)
        }
        _ => {
            inputs["kind"] = json!("static");
            sh.sample_sparse(211, || inputs.clone());
            check_static(&text, f.name, &site, inputs)
        }
    }
}

/// Quick: every fault x line ending x two of the first four placements (rotating with fault, line ending and seed), the
/// context rotating over the ones the fault allows. Thorough: every fault x context x line ending x six placements (complete).
fn matrix(sh: &mut Shard) {
    let thorough = sh.tier.pick(false, true);
    let mut index: u64 = 0;
    for (fi, f) in CATALOGUE.iter().enumerate() {
        let ctxs: Vec<Ctx> = CTXS.iter().copied().filter(|c| ctx_allowed(f, *c)).collect();
        for (ei, eol) in EOLS.iter().enumerate() {
            for (pi, (pos, final_eol)) in PLACES.iter().enumerate() {
                let chosen: Vec<Ctx> = if thorough {
                    ctxs.clone()
                } else {
                    if pi >= 4 || (pi as u64 + fi as u64 + ei as u64 + sh.seed) % 2 != 0 {
                        continue;
                    }
                    let rot = mix(hash64(&(fi as u64, ei as u64, pi as u64, sh.seed)));
                    vec![ctxs[(rot % ctxs.len() as u64) as usize]]
                };
                for ctx in chosen {
                    index += 1;
                    if !sh.mine(index) {
                        continue;
                    }
                    let variant = (mix(hash64(&(sh.seed, index))) % 12) as u32;
                    let r = matrix_case(sh, f, ctx, *pos, *final_eol, *eol, variant);
                    if !sh.report(r) {
                        return;
                    }
                }
            }
        }
    }
    if thorough {
        sh.exhaustive("fault catalogue x context x line ending x placement");
    }
}

/// Errors that are only found at the end of the text (a block that is never closed): whichever statement is held to be
/// the offending one, the reported row / column must be the same under LF, CRLF and CR line endings (positions are counted
/// in the file as the user sees it).
fn eof_faults(sh: &mut Shard) {
    const OPENERS: [&[&str]; 8] = [
        &["DO WHILE ZK1% < 2", "  ZK1% = ZK1% + 1"],
        &["IF ZK1% = 0 THEN", "  PRINT 1"],
        &["FOR ZK6% = 1 TO 2", "  PRINT ZK6%"],
        &["WHILE ZK1% < 2", "  ZK1% = ZK1% + 1"],
        &["SELECT CASE ZK1%", "CASE 0", "  PRINT 0"],
        &["SUB ZSb", "  PRINT 1"],
        &["FUNCTION ZFn%", "  ZFn% = 1"],
        &["IF ZK1% = 0 THEN", "  PRINT 1", "ELSE", "  PRINT 2"],
    ];
    if sh.shard != 1 % sh.nshards {
        return;
    }
    for (k, opener) in OPENERS.iter().enumerate() {
        for final_eol in [true, false] {
            for blank_lines in [0usize, 2] {
                let mut lines: Vec<String> = vec!["ZK1% = 0".to_string(), "PRINT \"f\"".to_string()];
                lines.extend(opener.iter().map(|l| l.to_string()));
                for _ in 0..blank_lines {
                    lines.push(String::new());
                }
                let mut seen: Vec<(String, Option<(u32, u32)>, String)> = vec![];
                for eol in [EolMode::Lf, EolMode::CrLf, EolMode::Cr] {
                    let text = join_lines(&lines, eol, final_eol);
                    sh.eval();
                    sh.journal(&text);
                    sh.class(&format!("eof-fault:{}", eol.name()));
                    sh.nontrivial(hash64(&(&text, "eof")));
                    let r = impl_run::front(&text);
                    let (pos, cls) = match &r {
                        Ok(_) => (None, "accepted".to_string()),
                        Err(e) => (e.pos(), e.class()),
                    };
                    seen.push((text, pos, cls));
                }
                let differs = seen.iter().any(|x| x.1 != seen[0].1 || x.2 != seen[0].2);
                if differs {
                    let inputs = json!({"kind": "eof", "program": seen[0].0, "program_crlf": seen[1].0, "program_cr": seen[2].0, "fault": format!("eof-fault:{}", k)});
                    let v = Violation::new("c11-eof-position-depends-on-line-endings", "an error found at the end of the text is reported at different positions under LF, CRLF and CR line endings", inputs)
                        .exp_obs(json!({"lf": format!("{:?} {}", seen[0].1, seen[0].2)}), json!({"crlf": format!("{:?} {}", seen[1].1, seen[1].2), "cr": format!("{:?} {}", seen[2].1, seen[2].2)}));
                    if !sh.report(Err(v)) {
                        return;
                    }
                }
            }
        }
    }
}

/// A SUB / FUNCTION implemented twice: Duplicate definition, at the second implementation's header.
fn duplicate_bodies(sh: &mut Shard) {
    if sh.shard != 2 % sh.nshards {
        return;
    }
    for (kw, header, end) in [("SUB", "SUB ZDup (ZP%)", "END SUB"), ("FUNCTION", "FUNCTION ZDup% (ZP%)", "END FUNCTION")] {
        for between in [false, true] {
            for eol in [EolMode::Lf, EolMode::CrLf, EolMode::Cr] {
                let mut lines: Vec<String> = vec!["ZK1% = 1".into(), "PRINT \"f\"; ZK1%".into(), header.into(), "  PRINT 1".into(), end.into()];
                if between {
                    lines.push("' between the two".into());
                    lines.push("ZK2% = 2".into());
                }
                let row = lines.len() as u32 + 1;
                lines.push(header.into());
                lines.push("  PRINT 2".into());
                lines.push(end.into());
                let text = join_lines(&lines, eol, true);
                sh.eval();
                sh.journal(&text);
                sh.class(&format!("duplicate-body:{}", kw));
                sh.nontrivial(hash64(&(&text, "dup-body")));
                let site = json!({"row": row, "col_start": 1, "col_end": header.chars().count()});
                let inputs = json!({"kind": "static", "program": text, "fault": "dup-body:second-implementation", "fault_site": site, "layout": format!("duplicate body {} {}", kw, eol.name()), "expect": exp_json(&DUPD)});
                let r = check_static(&text, "dup-body:second-implementation", &site, inputs);
                if !sh.report(r) {
                    return;
                }
            }
        }
    }
}

impl Prop for C11 {
    fn id(&self) -> &'static str {
        "C11"
    }
    fn rule(&self) -> &'static str {
        "(1) Matrix: a catalogue of statements with exactly one diagnostic (wrong argument count / argument type for user SUBs, user FUNCTIONs in every expression position, built-in functions and subs; undefined label for GOTO/GOSUB/ON ERROR/RESUME/RETURN; duplicate label/DIM/CONST; assignment to a CONST; a DECLARE contradicting an earlier DECLARE and the implementation; type mismatch in every expression position; undefined TYPE / field; unterminated string literal; unbalanced parenthesis; illegal token; incomplete statements; block closers without opener; misplaced EXIT / DIM SHARED; run-time faults: division by zero, overflow, subscript out of range, illegal function call, RETURN without GOSUB, RESUME without error, out of DATA, bad file number, file not found) is placed in small programs written line by line: context (own line, inside 1 or 3 blocks, after / before a colon, THEN / ELSE branch of a one-line IF, in a SUB, in a FUNCTION called from an expression, at the end of a FUNCTION -> SUB -> FUNCTION chain) x line ending (LF, CRLF, CR, three LF/CRLF/CR rotations) x placement (first possible row, middle, last possible row; with and without final line end). (1b) Blocks that are never closed (8 kinds, with and without final line end and trailing blank lines): the error found at the end of the text must be reported at the same row / column under LF, CRLF and CR. (2) Random search: accepted generated programs (core programs and programs with SUB/FUNCTION call chains, 10-60 lines) are rendered under a random layout (keyword/identifier case, blanks/tabs, blank lines, comment lines, trailing comments, colon-joined statements, LF/CRLF/CR or a per-line mix, with or without final line end) and ONE fault is injected by replacing a simple statement chosen anywhere (any nesting depth, main module or procedure): the catalogue's static faults, the original seven static faults, and seven run-time faults expressed in the generator's IR. Expected: reported row = row of the faulted statement, column inside its text (one past its end allowed), error family as the catalogue says; for run-time faults the active call sites (from the construction in (1), from the reference semantics in (2)) must be reported as [fault row, call-site rows innermost first ... main module]. Non-trivial = (1) anything but the plain first-row LF case, (2) fault row >= 3 and preceded by a blank line / comment / colon join / CR, CRLF or mixed endings / enclosing block / enclosing call; distinct by (program text, fault kind)."
    }
    fn assumptions(&self) -> Vec<&'static str> {
        vec![
            "columns count characters (a tab is one column)",
            "only faults with one unambiguous offending statement are injected (no missing END IF / NEXT, no multi-line construct headers; of DECLARE/implementation conflicts only a DECLARE that disagrees with an earlier DECLARE and the implementation, which agree with each other)",
            "run-time faults whose statement the reference run never reaches are discarded",
            "a duplicate definition is diagnosed at the second definition",
            "for a fault in the THEN / ELSE branch of a one-line IF the statement is the branch statement, not the whole line",
        ]
    }
    fn run(&self, sh: &mut Shard) {
        matrix(sh);
        eof_faults(sh);
        duplicate_bodies(sh);
        let cases = sh.share(sh.tier.pick(14_000, 500_000));
        sh.search(1, cases / 2, 60, 300, |sh, tape| one_case(sh, tape, false));
        sh.search(2, cases / 2, 80, 400, |sh, tape| one_case(sh, tape, true));
    }
    fn replay(&self, _sh: &mut Shard, inputs: &Value) -> Result<(), Violation> {
        let text = inputs["program"].as_str().unwrap_or("");
        let kind = inputs["fault"].as_str().unwrap_or("");
        if inputs["kind"] == "eof" {
            let texts = [inputs["program"].as_str().unwrap_or(""), inputs["program_crlf"].as_str().unwrap_or(""), inputs["program_cr"].as_str().unwrap_or("")];
            let obs: Vec<(Option<(u32, u32)>, String)> = texts.iter().map(|t| match impl_run::front(t) { Ok(_) => (None, "accepted".to_string()), Err(e) => (e.pos(), e.class()) }).collect();
            if obs.iter().any(|o| *o != obs[0]) {
                return Err(Violation::new("c11-eof-position-depends-on-line-endings", "an error found at the end of the text is reported at different positions under LF, CRLF and CR line endings", inputs.clone()).exp_obs(json!(format!("{:?}", obs[0])), json!(format!("{:?}", obs))));
            }
            return Ok(());
        }
        if inputs["kind"] == "runtime" {
            let sites: Vec<Value> = inputs["sites"].as_array().cloned().unwrap_or_default();
            let call_rows: Vec<u32> = inputs["call_rows"].as_array().map(|a| a.iter().map(|x| x.as_u64().unwrap_or(0) as u32).collect()).unwrap_or_default();
            let triggers: Vec<String> = inputs["triggers"].as_array().map(|a| a.iter().filter_map(|x| x.as_str().map(|s| s.to_string())).collect()).unwrap_or_default();
            check_runtime(text, kind, inputs["code"].as_i64().unwrap_or(0) as i32, &sites, &call_rows, &triggers, inputs.clone())
        } else {
            check_static(text, kind, &inputs["fault_site"], inputs.clone())
        }
    }
}

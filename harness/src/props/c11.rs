//! C11 — every diagnostic names the right place in the source.
//! Accepted generated programs, rendered under a random layout, with ONE fault injected at a
//! statement chosen anywhere; the reported row/column (and the call-site rows for run-time
//! faults inside procedures) are compared with the printer's site map.

use serde_json::{Value, json};

use crate::engine::{Shard, Tape, Violation, hash64};
use crate::genr::build::{Gen, GenCfg};
use crate::genr::inject::{add_scalar, count_slots, replace_slot};
use crate::genr::ir::*;
use crate::genr::print::{Eol, Layout, Rendered, render};
use crate::impl_run::{self, End, FrontErr, RunOpts};
use crate::props::Prop;
use crate::refsem::{self, Outcome, RefEnd};

pub struct C11;

pub const FAULTS: [&str; 10] = ["syntax-double-equals", "syntax-stray-paren", "syntax-dangling-operator", "type-mismatch", "undefined-label", "argument-count", "division-by-zero", "subscript-out-of-range", "overflow", "syntax-bad-for"];

pub fn random_layout(t: &mut Tape) -> Layout {
    Layout {
        seed: t.raw() as u64,
        case_mode: t.choose(3) as u8,
        space_mode: t.choose(2) as u8,
        blank_lines: *t.pick(&[0u32, 150, 300]),
        comments: *t.pick(&[0u32, 150, 300]),
        colons: *t.pick(&[0u32, 250, 500]),
        eol: *t.pick(&[Eol::Lf, Eol::CrLf, Eol::Cr]),
        indent: t.chance(2, 3),
        final_eol: t.chance(3, 4),
        call_kw: 0,
    }
}

fn make_fault(kind: &str, prog: &mut Program, scope: Option<usize>) -> Stmt {
    let lit = |v: i64| Expr::Lit(Lit::Whole(v));
    match kind {
        "syntax-double-equals" => Stmt::Raw("ZQ = = 1".into()),
        "syntax-stray-paren" => Stmt::Raw("PRINT )".into()),
        "syntax-dangling-operator" => Stmt::Raw("ZQ = 1 +".into()),
        "syntax-bad-for" => Stmt::Raw("ZQ = 1 2".into()),
        "type-mismatch" => Stmt::Raw("ZQ% = \"abc\"".into()),
        "undefined-label" => Stmt::Raw("GOTO ZNoSuchLabel".into()),
        "argument-count" => Stmt::Raw("ZQ% = LEN(\"a\", \"b\")".into()),
        "division-by-zero" => {
            let f = add_scalar(prog, scope, "ZF!", Ty::Single);
            let z = add_scalar(prog, scope, "ZZ%", Ty::Int);
            Stmt::Assign(f, Expr::Bin(BinOp::Div, Box::new(Expr::Lit(Lit::Frac { num: 3, shift: 1, double: false })), Box::new(Expr::Load(z))))
        }
        "overflow" => {
            let i = add_scalar(prog, scope, "ZI%", Ty::Int);
            Stmt::Assign(i, lit(40000))
        }
        "subscript-out-of-range" => {
            // the array is DIMmed at the start of the scope's body
            let vars = match scope {
                None => &mut prog.vars,
                Some(p) => &mut prog.procs[p].vars,
            };
            vars.push(VarInfo { name: "ZA%".into(), sty: STy::B(Ty::Int), bounds: vec![(0, 2)], shared: false });
            let idx = vars.len() - 1;
            Stmt::Assign(LValue { name: "ZA%".into(), var: idx, index: vec![lit(9)], fields: vec![], sty: STy::B(Ty::Int) }, lit(1))
        }
        other => panic!("unknown fault {}", other),
    }
}

fn is_runtime(kind: &str) -> bool {
    matches!(kind, "division-by-zero" | "subscript-out-of-range" | "overflow")
}

fn expected_static(kind: &str, e: &FrontErr) -> bool {
    match (kind, e) {
        (k, FrontErr::Parse { .. }) if k.starts_with("syntax") => true,
        ("type-mismatch", FrontErr::Lint { variant, .. }) => variant == "TypeMismatch" || variant == "ArgumentTypeMismatch",
        ("undefined-label", FrontErr::Lint { variant, .. }) => variant == "LabelNotDefined",
        ("argument-count", FrontErr::Lint { variant, .. }) => variant == "ArgumentCountMismatch",
        _ => false,
    }
}

struct Built {
    r: Rendered,
    fault_path: String,
    depth: usize,
    in_proc: bool,
    prog: Program,
}

fn build(tape: &[u32], with_calls: bool) -> Option<(Built, String, Layout)> {
    let mut t = Tape::new(tape);
    let kind = FAULTS[t.choose(FAULTS.len())];
    let lay = random_layout(&mut t);
    let which = t.raw();
    let used = t.used();
    let mut cfg = GenCfg::core(14, 3);
    cfg.errors = false;
    cfg.data = false;
    let rest = &tape[used.min(tape.len())..];
    let mut prog = if with_calls {
        cfg.procs = true;
        cfg.deftypes = false;
        cfg.max_stmts = 8;
        Gen::new(rest, &cfg).calls_program()
    } else {
        Gen::new(rest, &cfg).core_program()
    };
    let n = count_slots(&prog);
    if n == 0 {
        return None;
    }
    let target = ((which as u64 * n as u64) >> 32) as usize;
    let needs_dim = kind == "subscript-out-of-range";
    let mut scope_of_fault: Option<Option<usize>> = None;
    let (path, depth, scope) = replace_slot(&mut prog, target, &mut |p, scope| {
        scope_of_fault = Some(scope);
        make_fault(kind, p, scope)
    })?;
    let mut fault_path = path;
    if needs_dim {
        // DIM at the start of the scope: shifts the first path component index by one
        let (vars_len, body): (usize, &mut Vec<Stmt>) = match scope {
            None => (prog.vars.len(), &mut prog.main),
            Some(p) => (prog.procs[p].vars.len(), &mut prog.procs[p].body),
        };
        body.insert(0, Stmt::Dim(Dim { var: vars_len - 1, name: "ZA%".into(), bounds: vec![(0, 2)], explicit_lower: false, sty: STy::B(Ty::Int), extended: false, shared: false, redim: 0 }));
        let mut parts: Vec<String> = fault_path.split('/').map(|s| s.to_string()).collect();
        let k: usize = parts[1].parse().unwrap();
        parts[1] = (k + 1).to_string();
        fault_path = parts.join("/");
    }
    if with_calls && is_runtime(kind) && (which >> 3) % 3 == 0 {
        // earlier in the faulted scope a built-in fails and the error is handled (RESUME NEXT at module level); the handler is
        // switched off again: the call sites reported for the injected fault must still be complete
        let zn = add_scalar(&mut prog, scope, "ZHN%", Ty::Int);
        let zt = add_scalar(&mut prog, scope, "ZHT$", Ty::Str);
        let pre = vec![
            Stmt::OnErrorGoto(Some("ZH1".into())),
            Stmt::Assign(zn.clone(), Expr::Un(UnOp::Neg, Box::new(Expr::Lit(Lit::Whole(1))))),
            Stmt::Assign(zt, Expr::BuiltIn { name: "LEFT$".into(), args: vec![Expr::Lit(Lit::Str("abc".into())), Expr::Load(zn)], ty: Ty::Str }),
            Stmt::OnErrorGoto(None),
        ];
        let npre = pre.len();
        let body: &mut Vec<Stmt> = match scope {
            None => &mut prog.main,
            Some(p) => &mut prog.procs[p].body,
        };
        for (k, st) in pre.into_iter().enumerate() {
            body.insert(k, st);
        }
        let mut parts: Vec<String> = fault_path.split('/').map(|s| s.to_string()).collect();
        let k: usize = parts[1].parse().unwrap();
        parts[1] = (k + npre).to_string();
        fault_path = parts.join("/");
        prog.main.push(Stmt::End);
        prog.main.push(Stmt::Label("ZH1".into()));
        prog.main.push(Stmt::Resume(ResumeKind::Next));
    }
    let r = render(&prog, &lay);
    Some((Built { r, fault_path, depth, in_proc: scope.is_some(), prog }, kind.to_string(), lay))
}

fn site_json(r: &Rendered, path: &str) -> Value {
    match r.sites.get(path) {
        Some(s) => json!({"row": s.row, "col_start": s.col_start, "col_end": s.col_end}),
        None => Value::Null,
    }
}

fn check_static(text: &str, kind: &str, site: &Value, inputs: Value) -> Result<(), Violation> {
    let row = site["row"].as_u64().unwrap_or(0) as u32;
    let (c0, c1) = (site["col_start"].as_u64().unwrap_or(0) as u32, site["col_end"].as_u64().unwrap_or(0) as u32);
    match impl_run::front(text) {
        Ok(_) => Err(Violation::new(format!("c11-accepted:{}", kind), "a program with an injected static fault was accepted", inputs).exp_obs(json!({"rejected at": site}), "accepted")),
        Err(FrontErr::Panic { stage, info }) => Err(Violation::new(format!("panic:{}:{}", stage, info.sig()), "the faulted program made the parser/checker panic", inputs)),
        Err(e) => {
            if !expected_static(kind, &e) {
                return Err(Violation::new(format!("c11-error-family:{}:{}", kind, e.class()), "the injected fault is reported as an error of another family", inputs).exp_obs(kind, e.to_json()));
            }
            let (r, c) = e.pos().unwrap();
            if r != row {
                return Err(Violation::new(format!("c11-row:{}", kind), format!("{} reported on row {} instead of row {}", kind, r, row), inputs).exp_obs(site.clone(), e.to_json()));
            }
            if c < c0 || c > c1 + 1 {
                return Err(Violation::new(format!("c11-col:{}", kind), format!("{} reported at column {} outside the statement's columns {}..{}", kind, c, c0, c1), inputs).exp_obs(site.clone(), e.to_json()));
            }
            Ok(())
        }
    }
}

fn check_runtime(text: &str, kind: &str, code: i32, sites: &[Value], call_rows: &[u32], triggers: &[String], inputs: Value) -> Result<(), Violation> {
    let attributed = |d: String| triggers.first().cloned().unwrap_or(d);
    let out = match impl_run::run_src(text, &RunOpts::budget(3_000_000)) {
        Err(e) => return Err(Violation::new(attributed(format!("c11-rejected:{}:{}", kind, e.class())), "a well-formed program with an injected run-time fault was rejected", inputs).exp_obs("accepted", e.to_json())),
        Ok(o) => o,
    };
    match &out.end {
        End::Err { code: Some(c), pos, .. } if *c == code => {
            let Some((r, col)) = pos.first().copied() else { return Err(Violation::new(format!("c11-no-position:{}", kind), "run-time error without position", inputs)) };
            let ok = sites.iter().any(|s| s["row"].as_u64() == Some(r as u64) && (col as u64) >= s["col_start"].as_u64().unwrap_or(0) && (col as u64) <= s["col_end"].as_u64().unwrap_or(0) + 1);
            if !ok {
                let which = if sites.iter().any(|s| s["row"].as_u64() == Some(r as u64)) { "col" } else { "row" };
                return Err(Violation::new(attributed(format!("c11-{}:{}", which, kind)), format!("{} reported at row {} col {} instead of the faulted statement", kind, r, col), inputs).exp_obs(json!(sites), out.end.to_json()));
            }
            let got: Vec<u32> = pos.iter().skip(1).map(|p| p.0).collect();
            if got != call_rows {
                return Err(Violation::new(attributed(format!("c11-call-sites:{}", kind)), "the rows of the active call sites (innermost first, ending in the main module) differ", inputs).exp_obs(json!(call_rows), json!(got)));
            }
            Ok(())
        }
        other => Err(Violation::new(attributed(format!("c11-wrong-end:{}", kind)), format!("expected run-time error {} at the faulted statement, observed {}", code, other.short()), inputs).exp_obs(json!({"code": code, "sites": sites}), other.to_json())),
    }
}

fn one_case(sh: &mut Shard, tape: &[u32], with_calls: bool) -> Result<(), Violation> {
    let Some((b, kind, lay)) = build(tape, with_calls) else {
        sh.eval();
        sh.discard("no replaceable statement");
        return Ok(());
    };
    sh.eval();
    let site = site_json(&b.r, &b.fault_path);
    if site.is_null() {
        panic!("c11: fault path {} has no site", b.fault_path);
    }
    let row = site["row"].as_u64().unwrap_or(0);
    let decorated = lay.blank_lines > 0 || lay.comments > 0 || lay.colons > 0 || lay.eol != Eol::Lf || b.depth > 0 || b.in_proc;
    sh.journal(&b.r.text);
    let base_inputs = json!({"program": b.r.text, "fault": kind, "fault_site": site, "layout": lay.describe()});
    if !is_runtime(&kind) {
        sh.class(&format!("fault:{}", kind));
        sh.class(&format!("eol:{:?}", lay.eol));
        if b.r.sites.get(&b.fault_path).map(|s| s.after_colon).unwrap_or(false) {
            sh.class("fault-after-colon-or-decoration");
        }
        if row >= 3 && decorated {
            sh.nontrivial(hash64(&(&b.r.text, &kind)));
        }
        sh.sample_sparse(307, || base_inputs.clone());
        let mut inputs = base_inputs.clone();
        inputs["kind"] = json!("static");
        return check_static(&b.r.text, &kind, &site, inputs);
    }
    // run-time fault: the reference semantics says where (and through which call sites) it is raised
    let res = match refsem::run(&b.prog, 100_000) {
        Outcome::Undetermined(why, _) => {
            sh.discard(&format!("undetermined: {}", why));
            return Ok(());
        }
        Outcome::Determined(r) => r,
    };
    let RefEnd::Err(e) = &res.end else {
        sh.discard("fault not reached (program ends normally)");
        return Ok(());
    };
    sh.class(&format!("fault:{}", kind));
    sh.class(&format!("eol:{:?}", lay.eol));
    sh.class(&format!("call-depth:{}", e.call_sites.len()));
    let sites: Vec<Value> = e.paths.iter().map(|p| site_json(&b.r, p)).filter(|v| !v.is_null()).collect();
    let call_rows: Vec<u32> = e.call_sites.iter().filter_map(|p| b.r.sites.get(p)).map(|s| s.row).collect();
    if call_rows.len() != e.call_sites.len() {
        panic!("c11: call site without site entry");
    }
    let frow = sites.first().and_then(|s| s["row"].as_u64()).unwrap_or(0);
    if frow >= 3 && (decorated || !call_rows.is_empty()) {
        sh.nontrivial(hash64(&(&b.r.text, &kind)));
    }
    let triggers: Vec<String> = res.triggers.iter().map(|s| s.to_string()).collect();
    let mut inputs = base_inputs;
    inputs["kind"] = json!("runtime");
    inputs["code"] = json!(e.code);
    inputs["sites"] = json!(sites);
    inputs["call_rows"] = json!(call_rows);
    inputs["triggers"] = json!(triggers);
    sh.sample_sparse(307, || inputs.clone());
    check_runtime(&b.r.text, &kind, e.code, &sites, &call_rows, &triggers, inputs)
}

impl Prop for C11 {
    fn id(&self) -> &'static str {
        "C11"
    }
    fn rule(&self) -> &'static str {
        "Accepted generated programs (core programs and programs with SUB/FUNCTION call chains, 10-60 lines) are rendered under a random layout (keyword/identifier case, blanks/tabs, blank lines, comment lines, trailing comments, colon-joined statements, LF/CRLF/CR, with or without final line end) and ONE fault is injected by replacing a simple statement chosen anywhere (any nesting depth, main module or procedure): four syntax faults, a type mismatch, an undefined label, a wrong argument count, division by zero, subscript out of range, overflow. Expected from the printer's site map: reported row = row of the faulted statement, column inside its text (one past its end allowed); for run-time faults the reference semantics supplies where the fault is raised and the active call sites, and the envelope's rows must be [fault row, call-site rows innermost first ... main module]. Non-trivial = fault row >= 3 and preceded by a blank line / comment / colon join / CR or CRLF ending / enclosing block / enclosing call; distinct by (program text, fault kind)."
    }
    fn assumptions(&self) -> Vec<&'static str> {
        vec!["columns count characters (a tab is one column)", "only faults with one unambiguous offending statement are injected (no missing END IF / NEXT)", "run-time faults whose statement the reference run never reaches are discarded"]
    }
    fn run(&self, sh: &mut Shard) {
        let cases = sh.share(sh.tier.pick(16_000, 500_000));
        sh.search(1, cases / 2, 60, 300, |sh, tape| one_case(sh, tape, false));
        sh.search(2, cases / 2, 80, 400, |sh, tape| one_case(sh, tape, true));
    }
    fn replay(&self, _sh: &mut Shard, inputs: &Value) -> Result<(), Violation> {
        let text = inputs["program"].as_str().unwrap_or("");
        let kind = inputs["fault"].as_str().unwrap_or("");
        if inputs["kind"] == "runtime" {
            let sites: Vec<Value> = inputs["sites"].as_array().cloned().unwrap_or_default();
            let call_rows: Vec<u32> = inputs["call_rows"].as_array().map(|a| a.iter().map(|x| x.as_u64().unwrap_or(0) as u32).collect()).unwrap_or_default();
            let triggers: Vec<String> = inputs["triggers"].as_array().map(|a| a.iter().filter_map(|x| x.as_str().map(|s| s.to_string())).collect()).unwrap_or_default();
            check_runtime(text, kind, inputs["code"].as_i64().unwrap_or(0) as i32, &sites, &call_rows, &triggers, inputs.clone())
        } else {
            check_static(text, kind, &inputs["fault_site"], inputs.clone())
        }
    }
}

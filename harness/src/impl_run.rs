//! The only module that drives the implementation's pipeline:
//! parse -> lint -> generate instructions -> run (through the `verif` hook).

use std::cell::RefCell;
use std::collections::{BTreeSet, HashMap};
use std::rc::Rc;

use rusty_basic::instruction_generator::{
    Instruction, InstructionGeneratorResult, generate_instructions, unwrap_linter_context,
};
use rusty_basic::interpreter::verif::{self, TickView};
use rusty_common::HasPos;
use rusty_linter::core::{LinterContext, lint};
use rusty_parser::{Program, UserDefinedTypes, parse_main_str};
use rusty_variant::Variant;
use serde_json::{Value, json};

use crate::panics::{self, PanicInfo};

/// Outcome of the static stages.
#[derive(Clone, Debug, PartialEq)]
pub enum FrontErr {
    /// Parser rejected: variant name (e.g. "SyntaxError"), full debug text, position.
    Parse { variant: String, debug: String, row: u32, col: u32 },
    Lint { variant: String, debug: String, row: u32, col: u32 },
    Panic { stage: &'static str, info: PanicInfo },
}

impl FrontErr {
    pub fn class(&self) -> String {
        match self {
            FrontErr::Parse { variant, .. } => format!("parse:{}", variant),
            FrontErr::Lint { variant, .. } => format!("lint:{}", variant),
            FrontErr::Panic { stage, info } => format!("panic:{}:{}", stage, info.sig()),
        }
    }
    pub fn pos(&self) -> Option<(u32, u32)> {
        match self {
            FrontErr::Parse { row, col, .. } | FrontErr::Lint { row, col, .. } => Some((*row, *col)),
            _ => None,
        }
    }
    pub fn to_json(&self) -> Value {
        match self {
            FrontErr::Parse { debug, row, col, .. } => json!({"stage":"parse","error":debug,"row":row,"col":col}),
            FrontErr::Lint { debug, row, col, .. } => json!({"stage":"lint","error":debug,"row":row,"col":col}),
            FrontErr::Panic { stage, info } => json!({"stage":stage,"panic":info.msg,"at":info.loc}),
        }
    }
}

fn variant_name(debug: &str) -> String {
    debug
        .split(|c: char| !(c.is_alphanumeric() || c == '_'))
        .next()
        .unwrap_or("")
        .to_string()
}

pub fn parse(src: &str) -> Result<Program, FrontErr> {
    match panics::guarded(|| parse_main_str(src.to_string())) {
        Err(info) => Err(FrontErr::Panic { stage: "parse", info }),
        Ok(Ok(p)) => Ok(p),
        Ok(Err(e)) => {
            let pos = e.pos();
            let debug = format!("{:?}", e.element);
            Err(FrontErr::Parse { variant: variant_name(&debug), debug, row: pos.row(), col: pos.col() })
        }
    }
}

pub fn lint_program(program: Program) -> Result<(Program, LinterContext), FrontErr> {
    match panics::guarded(|| lint(program)) {
        Err(info) => Err(FrontErr::Panic { stage: "lint", info }),
        Ok(Ok(x)) => Ok(x),
        Ok(Err(e)) => {
            let pos = e.pos();
            let debug = format!("{:?}", e.element);
            Err(FrontErr::Lint { variant: variant_name(&debug), debug, row: pos.row(), col: pos.col() })
        }
    }
}

pub fn front(src: &str) -> Result<(Program, LinterContext), FrontErr> {
    lint_program(parse(src)?)
}

pub struct Compiled {
    pub igr: InstructionGeneratorResult,
    pub udt: UserDefinedTypes,
}

pub fn codegen(program: Program, ctx: LinterContext) -> Result<Compiled, FrontErr> {
    match panics::guarded(|| {
        let (names, udt) = unwrap_linter_context(ctx);
        let igr = generate_instructions(program, names);
        Compiled { igr, udt }
    }) {
        Ok(c) => Ok(c),
        Err(info) => Err(FrontErr::Panic { stage: "codegen", info }),
    }
}

pub fn compile(src: &str) -> Result<Compiled, FrontErr> {
    let (p, ctx) = front(src)?;
    codegen(p, ctx)
}

/// How a run ended.
#[derive(Clone, Debug, PartialEq)]
pub enum End {
    Ok,
    /// BASIC-level run-time error. `code` is None when the error has no code (get_code would panic).
    Err { code: Option<i32>, name: String, pos: Vec<(u32, u32)> },
    Panic(PanicInfo),
    /// Instruction budget exhausted (inconclusive).
    Budget,
}

impl End {
    pub fn to_json(&self) -> Value {
        match self {
            End::Ok => json!("ok"),
            End::Err { code, name, pos } => json!({"error":name,"code":code,"pos":pos}),
            End::Panic(p) => json!({"panic":p.msg,"at":p.loc}),
            End::Budget => json!("budget-exhausted"),
        }
    }
    pub fn code(&self) -> Option<i32> {
        match self {
            End::Err { code, .. } => *code,
            _ => None,
        }
    }
    pub fn short(&self) -> String {
        match self {
            End::Ok => "ok".into(),
            End::Err { code, name, pos } => format!("err {:?} {} @{:?}", code, name, pos.first()),
            End::Panic(p) => p.sig(),
            End::Budget => "budget".into(),
        }
    }
}

#[derive(Clone, Debug, Default)]
pub struct RunOpts {
    pub stdin: Vec<u8>,
    pub env: HashMap<String, String>,
    /// Maximum number of VM instructions.
    pub budget: u64,
    /// Record executed source rows (statement starts).
    pub rows: bool,
    /// Check the stack-depth discipline at statement starts (C15 dynamic part).
    pub depths: bool,
    /// Check the typed-variable invariant at every statement start (C06).
    pub typed_vars: bool,
}

impl RunOpts {
    pub fn budget(b: u64) -> Self {
        RunOpts { budget: b, ..Default::default() }
    }
    pub fn with_stdin(mut self, s: &[u8]) -> Self {
        self.stdin = s.to_vec();
        self
    }
}

pub struct RunOut {
    pub stdout: Vec<u8>,
    pub lpt1: Vec<u8>,
    pub end: End,
    pub ticks: u64,
    pub statements: u64,
    pub globals: Vec<(String, Variant)>,
    pub rows: BTreeSet<u32>,
    /// First stack-discipline anomaly seen, if any.
    pub depth_anomaly: Option<String>,
    /// First typed-variable anomaly seen, if any.
    pub typed_anomaly: Option<String>,
    pub last_error_code: Option<i32>,
}

impl RunOut {
    pub fn stdout_str(&self) -> String {
        String::from_utf8_lossy(&self.stdout).to_string()
    }
}

#[derive(Default)]
struct Obs {
    ticks: u64,
    statements: u64,
    budget_hit: bool,
    rows: BTreeSet<u32>,
    depth_seen: HashMap<(usize, u64), [usize; 6]>,
    depth_anomaly: Option<String>,
    typed_anomaly: Option<String>,
}

/// Value-level invariant for one stored variant: whatever the internal tag, the value must be one the
/// declared type can hold. `q` is the declared qualifier char if known.
fn check_typed(name: &str, q: Option<char>, v: &Variant, udt: &UserDefinedTypes) -> Option<String> {
    let num: Option<f64> = match v {
        Variant::VInteger(i) => Some(*i as f64),
        Variant::VLong(l) => Some(*l as f64),
        Variant::VSingle(f) => Some(*f as f64),
        Variant::VDouble(d) => Some(*d),
        _ => None,
    };
    match v {
        Variant::VString(_) => {
            if let Some(q) = q {
                if q != '$' {
                    return Some(format!("{} declared {} holds a STRING", name, q));
                }
            }
            None
        }
        Variant::VArray(arr) => {
            let n = arr.len();
            for i in 0..n {
                if let Some(e) = arr.get(i) {
                    if let Some(a) = check_typed(&format!("{}[{}]", name, i), q, e, udt) {
                        return Some(a);
                    }
                }
            }
            None
        }
        Variant::VUserDefined(u) => {
            for fname in u.names() {
                if let Some(fv) = u.get(fname) {
                    if let Some(a) = check_typed(&format!("{}.{}", name, fname), None, fv, udt) {
                        return Some(a);
                    }
                }
            }
            None
        }
        _ => {
            let x = num.unwrap();
            // the tag's own range first
            match v {
                Variant::VInteger(i) if *i < -32768 || *i > 32767 => return Some(format!("{} holds an INTEGER-tagged value out of range: {}", name, i)),
                Variant::VLong(l) if *l < -2147483648 || *l > 2147483647 => return Some(format!("{} holds a LONG-tagged value out of range: {}", name, l)),
                _ => {}
            }
            if !x.is_finite() {
                return Some(format!("{} holds a non-finite number {}", name, x));
            }
            // the tag must be the declared type's (a value of another tag behaves differently in later arithmetic)
            let tag = match v {
                Variant::VInteger(_) => '%',
                Variant::VLong(_) => '&',
                Variant::VSingle(_) => '!',
                _ => '#',
            };
            if let Some(qc) = q {
                if qc != '$' && qc != tag {
                    return Some(format!("{} declared {} holds a value tagged {} ({})", name, qc, tag, x));
                }
            }
            match q {
                Some('%') => {
                    if x.fract() != 0.0 || !(-32768.0..=32767.0).contains(&x) {
                        return Some(format!("{} (INTEGER) holds {}", name, x));
                    }
                }
                Some('&') => {
                    if x.fract() != 0.0 || !(-2147483648.0..=2147483647.0).contains(&x) {
                        return Some(format!("{} (LONG) holds {}", name, x));
                    }
                }
                Some('!') => {
                    if ((x as f32) as f64) != x {
                        return Some(format!("{} (SINGLE) holds {} which is not a single-precision value", name, x));
                    }
                }
                Some('$') => return Some(format!("{} (STRING) holds the number {}", name, x)),
                _ => {}
            }
            None
        }
    }
}

fn qualifier_char(name: &rusty_parser::Name) -> Option<char> {
    let s = name.to_string();
    match s.chars().last() {
        Some(c @ ('%' | '&' | '!' | '#' | '$')) => Some(c),
        _ => None,
    }
}

pub fn run(c: Compiled, opts: &RunOpts) -> RunOut {
    let Compiled { igr, udt } = c;
    let obs = Rc::new(RefCell::new(Obs::default()));
    let budget = opts.budget;
    let want_rows = opts.rows;
    let want_depths = opts.depths;
    let want_typed = opts.typed_vars;
    // statement starts and the row of the instruction there
    let n = igr.instructions.len();
    let mut is_stmt = vec![false; n + 1];
    for a in &igr.statement_addresses {
        if *a <= n {
            is_stmt[*a] = true;
        }
    }
    let rows: Vec<u32> = igr.instructions.iter().map(|i| i.pos().row()).collect();
    let trace: Option<Vec<String>> = if std::env::var("RBV_TRACE").is_ok() { Some(igr.instructions.iter().map(|i| format!("{:?}", i.element)).collect()) } else { None };
    let udt_for_tick = if want_typed { Some(udt.clone()) } else { None };
    let tick: verif::TickFn = {
        let obs = Rc::clone(&obs);
        Box::new(move |v: &TickView| {
            let mut o = obs.borrow_mut();
            o.ticks += 1;
            if let Some(t) = &trace {
                eprintln!("{:4} {} | states={} args={} v={} p={}", v.index, t.get(v.index).map(|s| s.chars().take(70).collect::<String>()).unwrap_or_default(), v.context.verif_states_len(), v.context.verif_argument_states_len(), v.value_stack, v.var_path_stack);
            }
            if o.ticks > budget {
                o.budget_hit = true;
                return false;
            }
            if v.index < is_stmt.len() && is_stmt[v.index] {
                o.statements += 1;
                if want_rows && v.index < rows.len() {
                    o.rows.insert(rows[v.index]);
                }
                if want_depths && o.depth_anomaly.is_none() {
                    // activation key: the call/gosub/handler history that led here
                    let key = crate::engine::hash64(&(v.return_address_stack, v.go_sub_address_stack, v.stacktrace, v.last_error_address));
                    let d = [v.value_stack, v.register_stack, v.var_path_stack, v.by_ref_stack, v.context.verif_argument_states_len(), v.context.verif_states_len()];
                    match o.depth_seen.get(&(v.index, key)) {
                        Some(prev) => {
                            if *prev != d {
                                o.depth_anomaly = Some(format!(
                                    "statement at instruction {} (row {}) revisited in the same activation with stack depths [value,register,var_path,by_ref,arg_states,context_states] {:?} then {:?}",
                                    v.index, rows.get(v.index).copied().unwrap_or(0), prev, d
                                ));
                            }
                        }
                        None => {
                            o.depth_seen.insert((v.index, key), d);
                        }
                    }
                }
                if want_typed && o.typed_anomaly.is_none() {
                    let udt = udt_for_tick.as_ref().unwrap();
                    'outer: for block in v.context.verif_memory_blocks() {
                        for (name, value) in block.verif_entries() {
                            let q = qualifier_char(name);
                            if let Some(a) = check_typed(&name.to_string(), q, value, udt) {
                                o.typed_anomaly = Some(format!("before instruction {} (row {}): {}", v.index, rows.get(v.index).copied().unwrap_or(0), a));
                                break 'outer;
                            }
                        }
                    }
                }
            }
            true
        })
    };
    let prev = panics::set_quiet(true);
    let _ = panics::take_last();
    let rep = verif::run(igr, udt, opts.stdin.clone(), opts.env.clone(), Some(tick));
    panics::set_quiet(prev);
    let o = obs.borrow();
    let end = if let Some(msg) = rep.panic {
        let info = panics::take_last().unwrap_or(PanicInfo { msg: msg.clone(), loc: String::new() });
        End::Panic(info)
    } else if o.budget_hit {
        End::Budget
    } else {
        match rep.result.unwrap() {
            Ok(()) => End::Ok,
            Err(e) => {
                let name = format!("{:?}", e.err());
                let code = panics::guarded(|| e.err().get_code()).ok();
                let pos = e.verif_positions().iter().map(|p| (p.row(), p.col())).collect();
                End::Err { code, name, pos }
            }
        }
    };
    RunOut {
        stdout: rep.stdout,
        lpt1: rep.lpt1,
        end,
        ticks: o.ticks,
        statements: o.statements,
        globals: rep.globals.into_iter().map(|(n, v)| (n.to_string(), v)).collect(),
        rows: o.rows.clone(),
        depth_anomaly: o.depth_anomaly.clone(),
        typed_anomaly: o.typed_anomaly.clone(),
        last_error_code: rep.last_error_code,
    }
}

/// Convenience: full pipeline on source text.
pub fn run_src(src: &str, opts: &RunOpts) -> Result<RunOut, FrontErr> {
    let c = compile(src)?;
    Ok(run(c, opts))
}

pub fn instruction_name(i: &Instruction) -> String {
    variant_name(&format!("{:?}", i))
}

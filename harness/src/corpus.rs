//! Corpus of the repository's own BASIC program texts: string literals embedded
//! in the test sources plus the fixtures. Inputs only — their test expectations
//! are never used as oracles.

use std::collections::BTreeSet;
use std::path::{Path, PathBuf};

fn repo_root() -> PathBuf {
    PathBuf::from(std::env::var("VERIF_REPO").unwrap_or_else(|_| "/repo".to_string()))
}

fn walk(dir: &Path, out: &mut Vec<PathBuf>) {
    let Ok(rd) = std::fs::read_dir(dir) else { return };
    let mut entries: Vec<PathBuf> = rd.filter_map(|e| e.ok()).map(|e| e.path()).collect();
    entries.sort();
    for p in entries {
        if p.is_dir() {
            let name = p.file_name().map(|n| n.to_string_lossy().to_string()).unwrap_or_default();
            if name == "target" || name == ".git" {
                continue;
            }
            walk(&p, out);
        } else if p.extension().map(|e| e == "rs").unwrap_or(false) {
            out.push(p);
        }
    }
}

/// Extracts Rust string literals (raw and ordinary) from a source text.
fn string_literals(src: &str) -> Vec<String> {
    let b: Vec<char> = src.chars().collect();
    let mut out = vec![];
    let mut i = 0;
    while i < b.len() {
        let c = b[i];
        if c == '/' && i + 1 < b.len() && b[i + 1] == '/' {
            while i < b.len() && b[i] != '\n' {
                i += 1;
            }
            continue;
        }
        if c == 'r' && i + 1 < b.len() && (b[i + 1] == '"' || b[i + 1] == '#') && (i == 0 || !(b[i - 1].is_alphanumeric() || b[i - 1] == '_')) {
            let mut j = i + 1;
            let mut hashes = 0;
            while j < b.len() && b[j] == '#' {
                hashes += 1;
                j += 1;
            }
            if j < b.len() && b[j] == '"' {
                j += 1;
                let start = j;
                'scan: while j < b.len() {
                    if b[j] == '"' {
                        let mut k = 0;
                        while k < hashes && j + 1 + k < b.len() && b[j + 1 + k] == '#' {
                            k += 1;
                        }
                        if k == hashes {
                            out.push(b[start..j].iter().collect());
                            j += 1 + hashes;
                            break 'scan;
                        }
                    }
                    j += 1;
                }
                i = j;
                continue;
            }
        }
        if c == '\'' {
            // char literal or lifetime: skip a possible char literal
            if i + 2 < b.len() && b[i + 1] == '\\' {
                let mut j = i + 2;
                while j < b.len() && b[j] != '\'' && j < i + 12 {
                    j += 1;
                }
                i = j + 1;
                continue;
            }
            if i + 2 < b.len() && b[i + 2] == '\'' {
                i += 3;
                continue;
            }
        }
        if c == '"' {
            let mut j = i + 1;
            let mut s = String::new();
            while j < b.len() && b[j] != '"' {
                if b[j] == '\\' && j + 1 < b.len() {
                    match b[j + 1] {
                        'n' => s.push('\n'),
                        'r' => s.push('\r'),
                        't' => s.push('\t'),
                        '\\' => s.push('\\'),
                        '"' => s.push('"'),
                        '0' => s.push('\0'),
                        '\n' => {
                            // line continuation: skip following whitespace
                            j += 2;
                            while j < b.len() && b[j].is_whitespace() {
                                j += 1;
                            }
                            continue;
                        }
                        other => {
                            s.push('\\');
                            s.push(other);
                        }
                    }
                    j += 2;
                } else {
                    s.push(b[j]);
                    j += 1;
                }
            }
            out.push(s);
            i = j + 1;
            continue;
        }
        i += 1;
    }
    out
}

fn looks_like_basic(s: &str) -> bool {
    if s.len() < 5 || s.len() > 20_000 {
        return false;
    }
    let up = s.to_uppercase();
    const KW: [&str; 24] = [
        "PRINT", "DIM ", "FOR ", "IF ", "SUB ", "FUNCTION ", "INPUT", "WHILE", "SELECT", "GOTO", "GOSUB", "CONST", "DECLARE", "TYPE ", "DATA", "OPEN ", "DO", "DEFINT", "LET ", "ON ERROR", "CALL ", "END", "LOCATE", "CLS",
    ];
    let has_kw = KW.iter().any(|k| up.contains(k));
    let assignment = up.contains(" = ") || up.contains('=');
    (has_kw || assignment) && !s.contains("{}") && !s.contains("{:") && !up.starts_with("EXPECTED")
}

/// All candidate program texts, deduplicated, in a deterministic order.
pub fn candidates() -> Vec<String> {
    let root = repo_root();
    let mut files = vec![];
    for krate in ["rusty_basic", "rusty_linter", "rusty_parser"] {
        walk(&root.join(krate).join("src"), &mut files);
    }
    let mut seen: BTreeSet<String> = BTreeSet::new();
    let mut out = vec![];
    for f in files {
        let Ok(text) = std::fs::read_to_string(&f) else { continue };
        for lit in string_literals(&text) {
            if looks_like_basic(&lit) && seen.insert(lit.clone()) {
                out.push(lit);
            }
        }
    }
    let fixtures = root.join("fixtures");
    if let Ok(rd) = std::fs::read_dir(&fixtures) {
        let mut ps: Vec<PathBuf> = rd.filter_map(|e| e.ok()).map(|e| e.path()).collect();
        ps.sort();
        for p in ps {
            if p.extension().map(|e| e.to_string_lossy().to_uppercase() == "BAS").unwrap_or(false) {
                if let Ok(bytes) = std::fs::read(&p) {
                    let text = String::from_utf8_lossy(&bytes).to_string();
                    if seen.insert(text.clone()) {
                        out.push(text);
                    }
                }
            }
        }
    }
    out
}

/// Candidates the current parser + checker accept.
pub fn accepted() -> Vec<String> {
    candidates().into_iter().filter(|s| !uses_machine(s) && crate::impl_run::front(s).is_ok()).collect()
}

/// Texts that touch the real machine (never run these).
pub fn uses_machine(s: &str) -> bool {
    let up = s.to_uppercase();
    up.contains("INKEY$") || up.contains("DEF SEG = 0") || up.contains("DEF SEG=0") || up.contains("SYSTEM") && false
}

//! corpus of the repository's own BASIC programs

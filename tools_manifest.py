#!/usr/bin/env python3
"""Regenerates MANIFEST.json from the table below (run after adding a property)."""
import json, subprocess
CLAIMED = {
 "C09": dict(
   text="Metamorphic testing, implementation against itself: generated programs (four IR generators) and the repository's program texts are re-rendered under random layouts (keyword and identifier case, blanks/tabs, blank lines, comment lines and trailing comments, colon joins against separate lines, LF/CRLF/CR, final newline); the parsed tree modulo positions/comments/case, the verdict class and the behaviour (output, error code) must be unchanged; negative relations (a label attached to another statement, a comment containing code, blanks inside words) must change the result.",
   note="Trusted: the IR printer's layout knobs produce only the variations the statement lists; the tree normaliser (positions, comment lists, letter case of names folded).",
   technique="proptest program generation + metamorphic layout relation (tree, verdict and behaviour equality)",
   design="6/C09"),
 "C12": dict(
   text="Four searches: (d) an exhaustive fault x position x context matrix (74 ill-typed expressions x every expression position of their type, 28 ill-typed statements, 16 statement contexts) where a fault rejected at the reference position must be rejected with the same error family inside the faulty statement wherever it is placed; and three generated-input searches: (a) checker-accepted programs of the wide generator, two thirds with wrongly typed sub-expressions planted in parentheses / argument lists / subscripts / CASE and PRINT lists and without statements converting external data, must never raise Type mismatch (13) nor a wrong-kind failure at run time; (b) consistent renaming of every user identifier keeps verdict class, output, error code and row; (b2) the DECLARE statements of a generated program, matching or with one changed, stand at the top / after the main code / after the bodies: same verdict everywhere; (c) one ill-typing edit (string operand at any expression depth, extra argument, by-reference type, duplicate CONST, NEXT with another counter) of an accepted program must be rejected with the matching error family inside the edited statement; (c2) an enumerated duplicate-definition matrix (a second DIM of a compact / extended scalar or array in the same scope, or in a SUB / FUNCTION while the main module DIM SHAREs it, with or without a variable of another suffix next to it).",
   note="Trusted: the IR printer's site map; refsem's static typing to pick numeric operands; the family table in the evidence assumptions.",
   technique="proptest program generation + validity oracle (soundness), metamorphic renaming relation, mutation of accepted programs with a rejection oracle",
   design="6/C12"),
 "C07": dict(
   text="Robustness fuzzing of parse + check: random bytes, token soups with grammar-biased transitions, noisy statement grammars, typed near-valid programs, token/byte mutations and splices of the repository's ~700 program texts, every prefix of those programs, and 31 deep-nesting constructs up to depth 300; oracle = returns without panic / process death / CPU overrun, with a program or exactly one error whose position is valid for the text by an independent line splitter.",
   note="Trusted: the harness's own line/column model; the worker process model (8 MiB stack like the real binary's main thread) for stack overflows; a 120 CPU-s bound stands in for 'bounded time'.",
   technique="generation-based and mutation-based fuzzing (proptest-driven) with a validity-predicate oracle; exhaustive prefix truncation",
   design="6/C07"),
 "C08": dict(
   text="Wide type-directed program fuzzing over the whole statement/built-in repertoire (with planted ill-typed sub-expressions), the exhaustive fault x position x context matrix (102 ill-typed templates placed at every expression position and in 16 statement contexts), plus all repository programs on random console input; only checker-accepted programs are judged; oracle = translation and execution end in normal termination or a run-time error with code and position, never a panic, process death or unreportable error.",
   note="Trusted: the in-memory run hook; machine-touching built-ins (INKEY$, DEF SEG = 0, real SYSTEM) are excluded; budget exhaustion is inconclusive.",
   technique="proptest tape-decoded wide program generation + crash/validity oracle",
   design="6/C08"),
 "C10": dict(
   text="Bounded-exhaustive enumeration of all operator sequences up to length 3 (5 in thorough) over the 13 binary and 2 unary operators with parenthesis placements, plus random longer chains: the parsed tree is compared node for node with a reference precedence-climbing parser built from the statement's rank table, and printed values with the reference tree's value; all 65536 16-bit literal values in decimal/hex/octal (leading zeros, signs), sampled 32-bit values, long decimals and fractional literals compared with the statement's type/value rule.",
   note="Trusted: the reference precedence parser and literal rule transcribed from the statement; value-preserving regroupings (a AND (b AND c)) are counted, not failed.",
   technique="bounded-exhaustive enumeration + proptest random chains against a reference parser/evaluator",
   design="6/C10"),
 "C11": dict(
   text="Fault injection with a position oracle. (1) Matrix: a catalogue of about 330 statements with exactly one diagnostic each (wrong argument count / type for user and built-in procedures in every expression position, by-reference arguments of another type, undefined labels, duplicate definitions, assignment to a CONST, a DECLARE contradicting an earlier DECLARE and the implementation, NEXT naming another variable, type mismatch in every expression position incl. FOR bounds, DIM bounds and constant expressions, undefined TYPE / field, misplaced EXIT / DIM SHARED / RESUME, unterminated strings, unbalanced parentheses, illegal tokens, incomplete statements, stray block closers, run-time faults of every kind) placed in small programs: 10 contexts (own line, blocks, after / before a colon - also behind characters above 127 -, one-line IF branches, SUB, FUNCTION, a FUNCTION -> SUB -> FUNCTION chain) x 6 line-ending conventions x 6 placements. (2) Random search: one fault replaces a statement chosen anywhere in an accepted generated program rendered under a random layout; run-time faults may follow a handled error (RESUME NEXT in place, or inside a SUB left by RESUME label). The reported row / column is compared with the printer's site map and, for run-time faults, the call-site rows with the reference semantics' call stack.",
   note="Trusted: the printer's site map (row/column spans under exactly the rendered layout) and the reference semantics for where run-time faults are raised.",
   technique="proptest program generation + fault injection + differential position oracle (site map)",
   design="6/C11"),
 "C13": dict(
   text="Exhaustive enumeration of all 26x5 single-letter DEFtype configurations and all 325x5 letter ranges crossed with declaration templates (35 global x 30 subprogram kinds, function-name templates, 422 must-reject templates, array parameters in compact and extended style, constants shadowed inside subprograms), plus random combinations; an independent resolver written from the statement and the README predicts accept/reject and which storage every spelling denotes, observed through distinct values printed through every spelling.",
   note="Trusted: the independent resolver; configurations the stated rules do not decide are discarded and counted.",
   technique="exhaustive configuration enumeration + proptest random configurations against a reference resolver",
   design="6/C13"),
 "C14": dict(
   text="Differential/metamorphic testing of constants, implementation against itself: for generated constant expressions (all operators, five types, boundary literals, earlier constants, module and SUB scope, bare and suffixed names) CONST c = e : PRINT c must relate to PRINT e (same output; rejected for overflow / division by zero exactly when the run-time evaluation raises 6 / 11), substituting (e) for c must not change a program, and the constant's type must be the one suffix it can be referenced through.",
   note="Trusted: nothing beyond the hook run entry; no reference semantics (the run-time evaluation of e is the oracle for the constant).",
   technique="proptest expression generation + differential/metamorphic relation (constant folding vs run-time evaluation)",
   design="6/C14"),
 "C18": dict(
   text="Stateful model-based testing: histories of 3-26 file operations (OPEN in four modes, PRINT #, INPUT #, LINE INPUT #, EOF, CLOSE, KILL, NAME, FIELD, LSET, PUT, GET, protocol violations of 30 kinds) over three handles and four names are run as one program each under a handler and, for a sample, without handler; a model of the store and the handle table predicts every value read, every error code and the final bytes of every file; a second generator feeds the same bytes through a file and through the console.",
   note="Trusted: the store/handle model written from the statement; lenient only where the statement is silent (trailing blanks of INPUT # fields, RANDOM padding).",
   technique="proptest stateful history generation against a reference model of the file store and handle table",
   design="6/C18"),
 "C06": dict(
   text="Exhaustive route x type-pair x boundary-value matrix (assignment, by-value parameter, FOR initial value, function result, array element, record field, READ, INPUT; + - * over boundary pairs; unary minus on the minima) with an exact expectation per observation (exactly rounded value, ties either way, or Overflow at that statement), float-overflow rows (results beyond the SINGLE/DOUBLE range must raise Overflow), and a tag-level typed-variable invariant evaluated at every statement boundary of every run (matrix and random programs) through the tick hook.",
   note="Trusted: exact quarter-unit arithmetic of the expectation; the hook's variable dump; f32/f64 parsing of printed values. Known unguarded INTEGER/LONG arithmetic is attributed to its finding.",
   technique="exhaustive boundary-value enumeration + invariant checking over generated programs (proptest)",
   design="6/C06"),
 "C04": dict(
   text="Differential testing of generated declaration + store/read/by-reference-store sequences over arrays (1-3 dimensions, negative lower bounds), records, nested records and fixed-length strings against a map model; every element and field is printed after the sequence, and an access outside a chosen face of the index box must raise Subscript out of range and nothing else.",
   note="Trusted: the map model in the reference semantics, the IR printer. Ties in fractional subscripts are never generated.",
   technique="proptest tape-decoded op-sequence generation + model-based differential oracle with full state dump",
   design="6/C04"),
 "C05": dict(
   text="Differential testing of trace programs (each statement prints a token, so stdout is the executed path) against a reference control machine: GOTO/GOSUB/RETURN layouts incl. jumps out of nested loops, handler enabling/disabling orders, five failing-statement kinds at every block position (also as last statement of a block followed by ELSE / CASE, and inside subprograms), RESUME / RESUME NEXT / RESUME label, RETURN label, stray RETURN/RESUME.",
   note="Trusted: reference control machine (tree-walking with labels per block, GOSUB as activation, handler dispatch). Failing statements under a handler sit at module level (any block position, incl. last statement before ELSE/CASE) or inside SUBs with a module-level handler; RESUME label for an error raised inside a procedure is left undetermined.",
   technique="proptest tape-decoded trace-program generation + differential oracle (reference control machine)",
   design="6/C05"),
 "C16": dict(
   text="Model-based testing of PRINT/LPRINT/PRINT # histories over four devices against a per-device column model written from the statement (zones of 14, carried column after a trailing separator, restart after embedded CR/LF) and of PRINT USING against a field model; all two-statement histories over a 6-item alphabet are enumerated, longer ones drawn at random.",
   note="Trusted: the column/field model; the bytes an embedded CR/LF writes are not pinned by the statement and are matched loosely.",
   technique="bounded-exhaustive + proptest history generation against a reference layout model",
   design="6/C16"),
 "C17": dict(
   text="Bounded-exhaustive testing (all 364 strings over {a,B,blank} of length <= 5 x all counts/starts in -1..7, all 65536 INTEGER k for VAL(STR$(k))) plus random longer strings of every string function against native reference implementations of the defining equations and against the laws evaluated inside BASIC; arguments as literals, variables and nested calls; error-raising calls observed both as last statement and under a handler.",
   note="Trusted: native reference functions written from the statement; where the statement is silent (empty INSTR needle, STRING$(n,\"\")) cases are discarded.",
   technique="bounded-exhaustive enumeration + proptest random search against reference implementations and algebraic laws",
   design="6/C17"),
 "C20": dict(
   text="Bounded-exhaustive differential testing of the parser-combinator library: every well-scoped parser expression up to 4-5 nodes over 9 primitives and 39 combinator forms x every input word up to length 6 over {a,b,c}, plus random deeper expressions, built into real rusty_pc parsers and compared node by node (outcome, output, error, position) with a denotational model of the documented contract; the statement's invariants are asserted on the real call tree as well.",
   note="Trusted: the denotational model (DESIGN.md Appendix C) and the probe wrapper; documented preconditions are decided in the model and such cases discarded.",
   technique="bounded-exhaustive enumeration of parser expressions x inputs against a denotational model + proptest for deeper expressions",
   design="6/C20"),
 "C02": dict(
   text="Metamorphic testing, implementation against itself: 16 rewrite rules (the seven spellings named in the statement plus once-executing context wrappers with every STEP form) applied on the IR of generated programs at one / some / all sites, plus an enumerated family of all 14x14 construct nestings around 12 statement groups compared with a flat FOR spelling. Printed output and error code must be identical.",
   note="Trusted: the rewrite rules preserve meaning by the statement itself (they are the equivalences it lists) and the IR printer. No reference semantics involved.",
   technique="proptest program generation + metamorphic rewrite relation; bounded-exhaustive nesting enumeration",
   design="6/C02"),
 "C03": dict(
   text="Differential testing of generated programs with SUBs/FUNCTIONs (STATIC, SHARED, CONST, recursion, every argument shape) against the reference semantics of calls (copy-in/copy-out left to right, fresh locals, persistent STATIC blocks); stdout, ending and the final dump of module-level variables compared.",
   note="Trusted: reference semantics (Appendix A), hook run entry and global-variable dump. Undefined aliasing is never generated.",
   technique="proptest tape-decoded program generation + differential oracle (reference semantics) + final-state dump",
   design="6/C03"),
 "C15": dict(
   text="Every generated program (core, calls and control generators under plain and random layouts, dense position grids of one construct at hundreds of row/column positions) and every repository-embedded program is compiled and its instruction list checked by a static well-formedness checker and an abstract interpreter over the depth vector of the six VM stacks on all control-flow paths; then run with a dynamic re-check of the depth vector at statement starts. Test-time analysis of generated outputs, not a proof over all programs.",
   note="Trusted: the per-instruction stack effects transcribed from Interpreter::interpret_one; callee balance assumed at call sites and checked per procedure body.",
   technique="generated-program search + abstract interpretation of each produced instruction list + dynamic depth invariant",
   design="6/C15"),
 "C01": dict(
   text="Differential testing against an independent big-step reference semantics with exact dyadic arithmetic over tape-generated core-language programs (thousands per run, every construct nested in every other); output bytes, error code and error position compared. Three-valued: cases the statements do not determine are discarded and counted. Explored-set assurance only.",
   note="Trusted: the reference semantics (DESIGN.md Appendix A), the IR printer's site map, the hook run entry. Failures that pass through a listed known-defect trigger are attributed to that finding.",
   technique="proptest tape-decoded program generation + differential oracle (reference semantics)",
   design="6/C01"),
 "C19": dict(
   text="Generated-input search with an exact machine oracle: the integer primitives are enumerated completely (all 65536 INTEGER values; all pairs of a boundary set) and sampled by millions of random pairs, the double encoders by every power of two, boundary mantissas, subnormals and random bit patterns; program-level cases go through the whole pipeline. Absence of a counterexample on the explored set, not a proof.",
   note="Trusted: Rust's i16/f64 bit operations as the reference; the harness's decoding of operands. qb_and/qb_or only with 16-bit operands.",
   technique="exhaustive enumeration + proptest random search against machine-arithmetic oracle",
   design="6/C19"),
}
REASON_NOT_BUILT = "check not built yet in this session (planned in DESIGN.md section 6); not claimed until it runs silently on the unchanged tree"
ALL = ["C%02d" % i for i in range(1, 21)]
def main():
    commits = subprocess.run(["git","-C","/repo","log","--format=%h %s"],capture_output=True,text=True).stdout.splitlines()
    hooks = [c.split()[0] for c in commits if c.split(" ",1)[1].startswith("verif hooks")]
    m = {
     "version": 1,
     "setup_cmd": "cd /verif/harness && CARGO_NET_OFFLINE=true cargo build --release --offline",
     "hooks": {
       "guard": "cargo feature `verif` of crate rusty_basic (every hook line is #[cfg(feature = \"verif\")])",
       "enable": "the harness depends on /repo/rusty_basic by path with features=[\"verif\"]; ./check rebuilds it from /repo's working tree on every invocation",
       "baseline_off_cmd": "cd /repo && cargo test --workspace --no-fail-fast --offline",
       "source_commits": hooks,
       "add_only": True},
     "engines": [{"name":"rbv","path":"harness","serves_properties":sorted(CLAIMED),"kind_free_text":"Rust harness: proptest-driven tape decoders + bounded-exhaustive enumerators, 16 worker processes, explicit oracles per property"}],
     "checks": [],
     "notes": "All checks: ./check <ID> quick|thorough; replay: ./check <ID> --replay <file>. Exit 0 held, 1 VIOLATION, 2 inconclusive (build failure, watchdog, harness fault). known_findings.json lists fixed and open findings.",
     "not_applicable": [],
    }
    for pid in ALL:
        if pid in CLAIMED:
            c = CLAIMED[pid]
            m["checks"].append({
              "property_id": pid,
              "quick_cmd": "./check %s quick" % pid,
              "thorough_cmd": "./check %s thorough" % pid,
              "evidence_file": "evidence/%s.json" % pid,
              "replay_cmd_template": "./check %s --replay {path}" % pid,
              "engine": "rbv",
              "level_claimed": {"category":"exploration","text":c["text"],"design_ref":c["design"]},
              "level_note": c["note"],
              "technique": c["technique"]})
        else:
            m["not_applicable"].append({"property_id":pid,"reason":REASON_NOT_BUILT})
    json.dump(m, open("/verif/MANIFEST.json","w"), indent=1)
    print("claimed:", sorted(CLAIMED))
main()

#!/usr/bin/env python3
"""Regenerates MANIFEST.json from the table below (run after adding a property)."""
import json, subprocess
CLAIMED = {
 "C01": dict(
   text="Differential testing against an independent big-step reference semantics with exact dyadic arithmetic over tape-generated core-language programs (thousands per run, every construct nested in every other); output bytes, error code and error position compared. Three-valued: cases the statements do not determine are discarded and counted. Explored-set assurance only.",
   note="Trusted: the reference semantics (DESIGN.md Appendix A), the IR printer's site map, the hook run entry. Failures that pass through a listed known-defect trigger are attributed to that finding.",
   technique="proptest tape-decoded program generation + differential oracle (reference semantics)",
   design="6/C01"),
 "C19": dict(
   text="Generated-input search with an exact machine oracle: the integer primitives are enumerated completely (all 65536 INTEGER values; all pairs of a boundary set) and sampled by millions of random pairs, the double encoders by every power of two, boundary mantissas, subnormals and random bit patterns; program-level cases go through the whole pipeline. Absence of a counterexample on the explored set, not a proof.",
   note="Trusted: Rust's i16/f64 bit operations as the reference; the harness's decoding of operands. qb_and/qb_or only with 16-bit operands.",
   technique="exhaustive enumeration + proptest random search against machine-arithmetic oracle",
   design="6/C19"),
}
REASON_NOT_BUILT = "check not built yet in this session (planned in DESIGN.md section 6); not claimed until it runs silently on the unchanged tree"
ALL = ["C%02d" % i for i in range(1, 21)]
def main():
    commits = subprocess.run(["git","-C","/repo","log","--format=%h %s"],capture_output=True,text=True).stdout.splitlines()
    hooks = [c.split()[0] for c in commits if c.split(" ",1)[1].startswith("verif hooks")]
    m = {
     "version": 1,
     "setup_cmd": "cd /verif/harness && CARGO_NET_OFFLINE=true cargo build --release --offline",
     "hooks": {
       "guard": "cargo feature `verif` of crate rusty_basic (every hook line is #[cfg(feature = \"verif\")])",
       "enable": "the harness depends on /repo/rusty_basic by path with features=[\"verif\"]; ./check rebuilds it from /repo's working tree on every invocation",
       "baseline_off_cmd": "cd /repo && cargo test --workspace --no-fail-fast --offline",
       "source_commits": hooks,
       "add_only": True},
     "engines": [{"name":"rbv","path":"harness","serves_properties":sorted(CLAIMED),"kind_free_text":"Rust harness: proptest-driven tape decoders + bounded-exhaustive enumerators, 16 worker processes, explicit oracles per property"}],
     "checks": [],
     "notes": "All checks: ./check <ID> quick|thorough; replay: ./check <ID> --replay <file>. Exit 0 held, 1 VIOLATION, 2 inconclusive (build failure, watchdog, harness fault). known_findings.json lists fixed and open findings.",
     "not_applicable": [],
    }
    for pid in ALL:
        if pid in CLAIMED:
            c = CLAIMED[pid]
            m["checks"].append({
              "property_id": pid,
              "quick_cmd": "./check %s quick" % pid,
              "thorough_cmd": "./check %s thorough" % pid,
              "evidence_file": "evidence/%s.json" % pid,
              "replay_cmd_template": "./check %s --replay {path}" % pid,
              "engine": "rbv",
              "level_claimed": {"category":"exploration","text":c["text"],"design_ref":c["design"]},
              "level_note": c["note"],
              "technique": c["technique"]})
        else:
            m["not_applicable"].append({"property_id":pid,"reason":REASON_NOT_BUILT})
    json.dump(m, open("/verif/MANIFEST.json","w"), indent=1)
    print("claimed:", sorted(CLAIMED))
main()

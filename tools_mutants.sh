#!/bin/bash
# tools_mutants.sh <seeded-dir>... : applies each seeded change to /repo (git apply), runs the quick check (TIER=thorough
# for the other tier; CHECK=Cnn to run another property's check) of its property, restores /repo (git checkout -- .) and
# the committed evidence, and records the outcome in the directory's meta.json. Prints one line per change.
cd /verif
for d in "$@"; do
  d=$(realpath ${d%/})
  id=${CHECK:-$(python3 -c "import json;print(json.load(open('$d/meta.json'))['property'])")}
  if ! git -C /repo apply --check "$d/patch.diff" 2>/dev/null; then echo "$d: patch does not apply"; continue; fi
  git -C /repo apply "$d/patch.diff"
  t0=$(date +%s)
  out=$(./check $id ${TIER:-quick} 2>&1); code=$?
  t1=$(date +%s)
  git -C /repo checkout -- .
  sig=$(echo "$out" | grep -A1 "^VIOLATION" | grep "sig:" | head -1 | sed 's/^ *sig: //')
  nviol=$(echo "$out" | grep -c '^VIOLATION')
  echo "$d: $id exit=$code $((t1-t0))s $nviol violation line(s) $sig"
  mkdir -p /tmp/mutlogs; echo "$out" | grep -v "^proptest" > /tmp/mutlogs/$(echo $d | tr '/' '_').log
  python3 - "$d" "$id" "${TIER:-quick}" "$code" "$sig" <<'PY'
import json,sys
d,cid,tier,code,sig=sys.argv[1:6]
p=d+"/meta.json"; m=json.load(open(p))
res="caught" if code=="1" else ("missed" if code=="0" else "inconclusive")
m.setdefault("history",[]).append("%s %s: %s%s" % (cid,tier,res,(" ("+sig+")") if sig else ""))
if res=="caught":
    cb=m.get("caught_by","")
    tag="%s %s" % (cid,tier)
    if cb in ("","missed","?") : m["caught_by"]=tag; m["first_sig"]=sig
    elif tag not in cb: m["caught_by"]=cb+", "+tag
elif m.get("caught_by","") in ("","?"):
    m["caught_by"]="missed"
json.dump(m,open(p,"w"),indent=1)
PY
done
git -C /verif checkout -- evidence
rm -rf /verif/out/*

#!/bin/bash
# tools_mutants.sh <dir-with-patch.diff>... : applies each seeded change to /repo, runs the quick check of its property
# (property id taken from meta.json), restores /repo and the committed evidence. Prints one line per change.
cd /verif
for d in "$@"; do
  id=$(python3 -c "import json,sys;print(json.load(open('$d/meta.json'))['property'])")
  if ! git -C /repo apply --check "$d/patch.diff" 2>/dev/null; then echo "$d: patch does not apply"; continue; fi
  git -C /repo apply "$d/patch.diff"
  t0=$(date +%s)
  out=$(./check $id ${TIER:-quick} 2>&1); code=$?
  t1=$(date +%s)
  git -C /repo checkout -- .
  sig=$(echo "$out" | grep -A1 "^VIOLATION" | grep "sig:" | head -3 | tr '\n' ' ')
  echo "$d: $id exit=$code $((t1-t0))s $(echo "$out" | grep -c '^VIOLATION') violation line(s) $sig"
  mkdir -p /tmp/mutlogs; echo "$out" | grep -v "^proptest" > /tmp/mutlogs/$(echo $d | tr '/' '_').log
done
git -C /verif checkout -- evidence
rm -rf /verif/out/*

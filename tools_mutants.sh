#!/bin/bash
# tools_mutants.sh <seeded-dir>... : runs the quick check (TIER=thorough for the other tier; CHECK=Cnn to run another
# property's check) of each seeded change's property against a scratch worktree of /repo with the change applied
# (/repo itself is never touched, so this can run next to other work), and records the outcome in the directory's
# meta.json. The harness is a scratch copy of /verif/harness whose path dependencies point at the worktree.
# Prints one line per change. Scratch: /tmp/mut_repo (worktree), /tmp/mut_work (harness copy), /tmp/mut_root (VERIF_ROOT);
# remove with: git -C /repo worktree remove --force /tmp/mut_repo; rm -rf /tmp/mut_work /tmp/mut_root
WT=/tmp/mut_repo${SLOT:-}; WK=/tmp/mut_work${SLOT:-}; RT=/tmp/mut_root${SLOT:-}
cd /verif
[ -d $WT ] || git -C /repo worktree add --detach $WT HEAD -q
git -C $WT checkout -q --detach $(git -C /repo rev-parse HEAD)
rsync -a --delete --exclude target /verif/harness/ $WK/
sed -i "s#/repo/#$WT/#g" $WK/Cargo.toml
for d in "$@"; do
  d=$(realpath ${d%/})
  id=${CHECK:-$(python3 -c "import json;print(json.load(open('$d/meta.json'))['property'])")}
  git -C $WT checkout -q -- .
  if ! git -C $WT apply "$d/patch.diff" 2>/dev/null; then echo "$d: patch does not apply"; continue; fi
  mkdir -p $RT; rm -rf $RT/out $RT/evidence; cp /verif/known_findings.json $RT/; rsync -a --delete /verif/regress/ $RT/regress/
  if ! (cd $WK && CARGO_NET_OFFLINE=true cargo build --release --offline -q 2>$RT/build.log); then echo "$d: harness build failed"; continue; fi
  t0=$(date +%s)
  out=$(cd $RT && VERIF_ROOT=$RT VERIF_TIER=${TIER:-quick} $WK/target/release/rbv $id ${TIER:-quick} 2>&1); code=$?
  t1=$(date +%s)
  git -C $WT checkout -q -- .
  sig=$(echo "$out" | grep -A1 "^VIOLATION" | grep "sig:" | head -1 | sed 's/^ *sig: //')
  nviol=$(echo "$out" | grep -c '^VIOLATION')
  echo "$d: $id exit=$code $((t1-t0))s $nviol violation line(s) $sig"
  python3 - "$d" "$id" "${TIER:-quick}" "$code" "$sig" <<'PY'
import json,sys
d,cid,tier,code,sig=sys.argv[1:6]
p=d+"/meta.json"; m=json.load(open(p))
res="caught" if code=="1" else ("missed" if code=="0" else "inconclusive")
m.setdefault("history",[]).append("%s %s: %s%s" % (cid,tier,res,(" ("+sig+")") if sig else ""))
if res=="caught":
    cb=m.get("caught_by","")
    tag="%s %s" % (cid,tier)
    if cb in ("","missed","?") : m["caught_by"]=tag; m["first_sig"]=sig
    elif tag not in cb: m["caught_by"]=cb+", "+tag
elif m.get("caught_by","") in ("","?"):
    m["caught_by"]="missed"
json.dump(m,open(p,"w"),indent=1)
PY
done

#!/bin/bash
# tools_confirm.sh <mutant-dir>... : confirms seeded changes in a scratch worktree of /repo under /tmp:
# applies the patch, builds, runs the whole test suite, runs demo.bas on the changed and the unchanged tree.
# Writes <mutant-dir>/confirm.json. The worktree is removed at the end.
WT=/tmp/confirm_wt${SLOT:-}
git -C /repo worktree remove --force $WT 2>/dev/null
git -C /repo worktree add --detach $WT HEAD -q || exit 2
cd $WT
export CARGO_NET_OFFLINE=true
cargo build --offline -q -p rusty_basic 2>/dev/null
for d in "$@"; do
  git checkout -q -- .
  base_out=""; mut_out=""
  if [ -f "$d/demo.bas" ]; then
    base_out=$( (cd $d && timeout 20 $WT/target/debug/rusty_basic demo.bas < /dev/null 2>&1) | head -c 4000)
  fi
  if ! git apply "$d/patch.diff" 2>/dev/null; then
    echo "{\"applies\": false}" > $d/confirm.json; echo "$d: does not apply"; continue
  fi
  if ! cargo build --offline -q -p rusty_basic 2>/tmp/confirm_build.log; then
    echo "{\"applies\": true, \"builds\": false}" > $d/confirm.json; echo "$d: does not build"; continue
  fi
  if [ -f "$d/demo.bas" ]; then
    mut_out=$( (cd $d && timeout 20 $WT/target/debug/rusty_basic demo.bas < /dev/null 2>&1) | head -c 4000)
  fi
  totals=$(cargo test --workspace --no-fail-fast --offline 2>&1 | grep -E "^test result" | awk '{p+=$4; f+=$6} END {print p" "f}')
  BASE_OUT="$base_out" MUT_OUT="$mut_out" python3 -c "
import json,os,sys
d='$d'; p,f='$totals'.split()
json.dump({'applies':True,'builds':True,'tests_passed':int(p),'tests_failed':int(f),'demo_differs': os.environ['BASE_OUT']!=os.environ['MUT_OUT'],'demo_unchanged':os.environ['BASE_OUT'][:1500],'demo_changed':os.environ['MUT_OUT'][:1500],'head':'$(git rev-parse --short HEAD)'}, open(d+'/confirm.json','w'), indent=1)
print(d, 'tests', p, f, 'demo differs', os.environ['BASE_OUT']!=os.environ['MUT_OUT'])
"
done
cd /
git -C /repo worktree remove --force $WT

#!/usr/bin/env python3
"""Regenerates the generated blocks of DESIGN.md (between <!-- BEGIN:x --> and <!-- END:x --> markers):
   findings  - table of fixed / open findings from known_findings.json
   seeded    - table of seeded changes from seeded/*/meta.json"""
import json, glob, os, re
os.chdir("/verif")
def block(name, text, s):
    a, b = f"<!-- BEGIN:{name} -->", f"<!-- END:{name} -->"
    i, j = s.index(a) + len(a), s.index(b)
    return s[:i] + "\n" + text + "\n" + s[j:]
k = json.load(open("known_findings.json"))
rows = ["| property | status | repo commit | what failed | witness |", "|---|---|---|---|---|"]
for e in sorted(k, key=lambda e: (e["property"], e["status"])):
    rows.append("| %s | %s | %s | %s | %s |" % (e["property"], e["status"], e.get("commit", "—"), e["what"].replace("|", "\\|"), e.get("witness", "—")))
s = open("DESIGN.md").read()
s = block("findings", "\n".join(rows), s)
rows = ["| id | property | changed files | what the change does | caught by (quick tier) | first signature |", "|---|---|---|---|---|---|"]
for f in sorted(glob.glob("seeded/*/meta.json")):
    m = json.load(open(f))
    rows.append("| %s | %s | %s | %s | %s | %s |" % (os.path.basename(os.path.dirname(f)), m["property"], ", ".join(m.get("files", [])), m.get("summary", "").replace("|", "\\|"), m.get("caught_by", "?"), m.get("first_sig", "")))
if "<!-- BEGIN:seeded -->" in s:
    s = block("seeded", "\n".join(rows), s)
open("DESIGN.md", "w").write(s)

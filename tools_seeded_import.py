#!/usr/bin/env python3
"""tools_seeded_import.py <mutant-dir>... : copies a confirmed seeded change into /verif/seeded/<PROP>-<k>/
(patch.diff, demonstration.md, witness files, meta.json with the confirmation record)."""
import json, os, shutil, sys, glob
for d in sys.argv[1:]:
    d = d.rstrip("/")
    meta = json.load(open(d + "/meta.json"))
    conf = json.load(open(d + "/confirm.json")) if os.path.exists(d + "/confirm.json") else None
    if not conf or not conf.get("builds") or conf.get("tests_failed") != 0:
        print("skip (not confirmed):", d); continue
    sid = "%s-%s" % (meta["property"], meta.get("k", os.path.basename(d)))
    out = "/verif/seeded/" + sid
    os.makedirs(out, exist_ok=True)
    for f in ["patch.diff", "demonstration.md"] + [os.path.basename(x) for x in glob.glob(d + "/demo*")]:
        if os.path.exists(d + "/" + f) and os.path.getsize(d + "/" + f) < 200000:
            shutil.copy(d + "/" + f, out + "/" + f)
    old = json.load(open(out + "/meta.json")) if os.path.exists(out + "/meta.json") else {}
    meta["confirmed"] = {k: conf[k] for k in ("tests_passed", "tests_failed", "demo_differs", "head")}
    for k in ("caught_by", "first_sig", "history"):
        if k in old: meta[k] = old[k]
    json.dump(meta, open(out + "/meta.json", "w"), indent=1)
    print("imported", sid)

#!/bin/bash
# multi_seed.sh <seed>... : runs the quick tier of every claimed check under each given VERIF_SEED; prints alarms only
cd "$(dirname "$0")"
for seed in "$@"; do
  for id in $(python3 -c "import json;print(' '.join(c['property_id'] for c in json.load(open('MANIFEST.json'))['checks']))"); do
    out=$(VERIF_SEED=$seed ./check $id ${TIER:-quick} 2>&1); code=$?
    line=$(echo "$out" | grep -E "^C[0-9]+ (quick|thorough):" | tail -1)
    echo "seed=$seed $id exit=$code $line"
    if [ $code -ne 0 ]; then
      echo "$out" | grep -E -A2 "^(VIOLATION|INCONCLUSIVE)" | head -12
      mkdir -p /tmp/seedlogs; cp -r out/$id /tmp/seedlogs/${id}_seed$seed 2>/dev/null
    fi
  done
done

#!/usr/bin/env python3
"""Record a repaired defect: tools_fixed.py <PROP> <sig> <commit> <witness-src.json> <name> <what...>
Copies the witness into regress/<PROP>/fixed_<name>.json and appends a 'fixed' entry to known_findings.json."""
import json, shutil, sys, os
prop, sig, commit, src, name = sys.argv[1:6]
what = " ".join(sys.argv[6:])
os.makedirs(f"regress/{prop}", exist_ok=True)
dst = f"regress/{prop}/fixed_{name}.json"
shutil.copy(src, dst)
k = json.load(open("known_findings.json"))
k.append({"status": "fixed", "property": prop, "sig": sig, "commit": commit, "what": what, "witness": dst,
          "line": f"fixed: property={prop} {commit} {what}"})
json.dump(k, open("known_findings.json", "w"), indent=1)
print("recorded", dst)
